#!/bin/bash
# Must-pass corpus: 40 behaviour-preserving refactorings written by independent sub-agents (two per property; each
# compiles and passes the full test-suite; the .txt next to each diff argues the equivalence).  The check of the
# property must exit 0 on HEAD + diff.  C09-1 (renamed, reversed counter of the sampler loop) passes since the
# loop invariant speaks about the ghost iteration count `loopiter`.
# usage: selftest/run_refactorings.sh [pattern]
HERE="$(cd "$(dirname "$0")/.." && pwd)"
PAT="${1:-}"; fail=0; n=0
for d in "$HERE"/selftest/refactorings/*${PAT}*.diff; do
  p=$(basename "$d" | cut -c1-3); n=$((n+1))
  out=$("$HERE/tools/try_refactor.sh" "$d" "$p" 2>&1); rc=$?
  if [ $rc = 0 ]; then echo "ok       $(basename $d)"
  else echo "ALARM    $(basename $d)"; echo "$out" | tail -4; fail=1; fi
done
echo "refactorings: $n cases, fail=$fail"; exit $fail
