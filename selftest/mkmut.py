#!/usr/bin/env python3
"""Generate selftest mutation patches (unified diffs against /repo) from (file, old, new) edits."""
import subprocess, os, sys, tempfile, shutil
OUT = os.path.join(os.path.dirname(os.path.abspath(__file__)), 'mutations')
os.makedirs(OUT, exist_ok=True)
M = [
 # (patch name, file, old, new)
 ("C01__isodd_wrong_limb", "internal/field/field.go", "return helpers.Uint64IsNonzero(nm[0] & 1)", "return helpers.Uint64IsNonzero(nm[1] & 1)"),
 ("C01__setcanonical_accepts_noncanonical", "internal/field/field.go", "\tif reduceSaturated(&l, &l) != 0 {\n\t\treturn nil, errNonCanonicalEncoding\n\t}\n\tfe.uncheckedSetSaturated(&l)\n\n\treturn fe, nil\n}\n\n// MustSetCanonicalBytes", "\tif reduceSaturated(&l, &l) > 1 {\n\t\treturn nil, errNonCanonicalEncoding\n\t}\n\tfe.uncheckedSetSaturated(&l)\n\n\treturn fe, nil\n}\n\n// MustSetCanonicalBytes"),
 ("C01__fiat_add_modulus_const", "internal/fiat/secp256k1montgomery/secp256k1montgomery.go", "\tx9, x10 = bits.Sub64(x1, 0xfffffffefffffc2f, uint64(0x0))\n\tvar x11 uint64\n\tvar x12 uint64\n\tx11, x12 = bits.Sub64(x3, 0xffffffffffffffff, uint64(uint1(x10)))\n\tvar x13 uint64\n\tvar x14 uint64\n\tx13, x14 = bits.Sub64(x5, 0xffffffffffffffff, uint64(uint1(x12)))\n\tvar x15 uint64\n\tvar x16 uint64\n\tx15, x16 = bits.Sub64(x7, 0xffffffffffffffff, uint64(uint1(x14)))\n\tvar x18 uint64", "\tx9, x10 = bits.Sub64(x1, 0xfffffffefffffc2e, uint64(0x0))\n\tvar x11 uint64\n\tvar x12 uint64\n\tx11, x12 = bits.Sub64(x3, 0xffffffffffffffff, uint64(uint1(x10)))\n\tvar x13 uint64\n\tvar x14 uint64\n\tx13, x14 = bits.Sub64(x5, 0xffffffffffffffff, uint64(uint1(x12)))\n\tvar x15 uint64\n\tvar x16 uint64\n\tx15, x16 = bits.Sub64(x7, 0xffffffffffffffff, uint64(uint1(x14)))\n\tvar x18 uint64"),
 ("C01__pow2k_one_more_squaring", "internal/field/field.go", "for i := uint(1); i < k; i++ {\n\t\tfiat.Square(&fe.m, &fe.m)", "for i := uint(1); i <= k; i++ {\n\t\tfiat.Square(&fe.m, &fe.m)"),
 ("C01__condnegate_swapped", "internal/field/field.go", "return fe.ConditionalSelect(a, feNeg, ctrl)", "return fe.ConditionalSelect(feNeg, a, ctrl)"),
 ("C01__widebytes_split_off_by_one", "internal/field/field_reduce.go", "b := NewElement().setShortBytes(src512[16:40]) // b", "b := NewElement().setShortBytes(src512[17:40]) // b"),
 ("C01__sqrt_flag_ignored", "internal/field/field_sqrt_ratio.go", "fe.ConditionalSelect(&feZero, tmp, isSqrt)", "fe.ConditionalSelect(tmp, tmp, isSqrt)"),
 ("C01__invert_chain_step", "internal/field/field_invert.go", "\t// Step 3: t1 = x^0x5\n\tt1.Multiply(x, t1)", "\t// Step 3: t1 = x^0x5\n\tt1.Multiply(t0, t1)"),
 ("C01__equal_three_limbs", "internal/helpers/helpers.go", "for i := 0; i < len(a); i++ {\n\t\tv |= a[i] ^ b[i]", "for i := 0; i < len(a)-1; i++ {\n\t\tv |= a[i] ^ b[i]"),
 ("C02__halfn_constant", "scalar.go", "0xdfe92f46681b20a0,", "0xdfe92f46681b20a1,"),
 ("C02__setbytes_flag_dropped", "scalar.go", "\tdidReduce := reduceSaturated(&l, &l)\n\ts.uncheckedSetSaturated(&l)\n\n\treturn s, didReduce", "\tdidReduce := reduceSaturated(&l, &l)\n\ts.uncheckedSetSaturated(&l)\n\n\treturn s, didReduce & 0"),
 ("C02__reduce_wrong_limb", "scalar.go", "reduced[2], borrow = bits.Sub64(src[2], nSat[2], borrow)", "reduced[2], borrow = bits.Sub64(src[2], nSat[3], borrow)"),
 ("C02__setcanonical_touches_receiver", "scalar.go", "\tif reduceSaturated(&l, &l) != 0 {\n\t\treturn nil, errNonCanonicalEncoding\n\t}\n\ts.uncheckedSetSaturated(&l)\n\n\treturn s, nil", "\tdidReduce := reduceSaturated(&l, &l)\n\ts.uncheckedSetSaturated(&l)\n\tif didReduce != 0 {\n\t\treturn nil, errNonCanonicalEncoding\n\t}\n\n\treturn s, nil"),
 ("C02__invert_chain", "scalar_invert.go", "t0.Square(x)", "t0.Multiply(x, x).Multiply(t0, x)"),
 ("C03__addcomplete_wrong_operand", "point_projective.go", "\t// t4 := t0 + t1 ; t3 := t3 - t4 ; t4 := Y1 + Z1 ;\n\tt4.Add(t0, t1)\n\tt3.Subtract(t3, t4)\n\tt4.Add(y1, z1)\n\n\t// X3 := Y2 + Z2", "\t// t4 := t0 + t1 ; t3 := t3 - t4 ; t4 := Y1 + Z1 ;\n\tt4.Add(t0, t1)\n\tt3.Subtract(t3, t4)\n\tt4.Add(y1, y1)\n\n\t// X3 := Y2 + Z2"),
 ("C03__negate_noop", "point.go", "\tv.x.Set(&p.x)\n\tv.y.Negate(&p.y)\n\tv.z.Set(&p.z)\n\tv.isValid = p.isValid\n\n\treturn v\n}\n\n// ConditionalNegate", "\tv.x.Set(&p.x)\n\tv.y.Set(&p.y)\n\tv.z.Set(&p.z)\n\tv.isValid = p.isValid\n\n\treturn v\n}\n\n// ConditionalNegate"),
 ("C03__equal_ignores_y", "point.go", "return x1z2.Equal(x2z1) & y1z2.Equal(y2z1)", "return x1z2.Equal(x2z1) & (y1z2.Equal(y2z1) | 1)"),
 # (removed: isValid = p.isValid || q.isValid is equivalent on the normal path, assertPointsValid already requires both)
 ("C03__double_alias_unsafe", "point_projective.go", "\t// t1 := X * Y ; X3 := t0 * t1 ; X3 := X3 + X3 ;\n\tt1.Multiply(x, y)\n\tx3.Multiply(t0, t1)\n\tx3.Add(x3, x3)\n\n\t// return X3 , Y3 , Z3 ;\n\tv.x.Set(x3)\n\tv.y.Set(y3)\n\tv.z.Set(z3)", "\t// return X3 , Y3 , Z3 ;\n\tv.y.Set(y3)\n\tv.z.Set(z3)\n\n\t// t1 := X * Y ; X3 := t0 * t1 ; X3 := X3 + X3 ;\n\tt1.Multiply(x, y)\n\tx3.Multiply(t0, t1)\n\tx3.Add(x3, x3)\n\tv.x.Set(x3)"),
 ("C03__rescale_identity_not_fixed", "point_projective.go", "return v.ConditionalSelect(scaled, NewIdentityPoint(), p.IsIdentity())", "return v.ConditionalSelect(scaled, scaled, p.IsIdentity())"),
 ("C06__compressed_parity_inverted", "point_s11n.go", "v.y.ConditionalSelect(yNeg, y, helpers.Uint64IsNonzero(uint64(tagEq)))", "v.y.ConditionalSelect(y, yNeg, helpers.Uint64IsNonzero(uint64(tagEq)))"),
 ("C06__hybrid_prefix_accepted", "point_s11n.go", "if src[0] != prefixUncompressed {", "if src[0]&0xfd != prefixUncompressed {"),
 ("C06__encode_prefix_swapped", "point_s11n.go", "\t\tprefixCompressedOdd,\n\t\tprefixCompressedEven,", "\t\tprefixCompressedEven,\n\t\tprefixCompressedOdd,"),
 ("C06__uncompressed_skips_curve_check", "point_s11n.go", "\tif xyOnCurve(x, y) != 1 {\n\t\treturn nil, errPointNotOnCurve\n\t}\n\n\tv.x.Set(x)", "\tif xyOnCurve(x, y) > 1 {\n\t\treturn nil, errPointNotOnCurve\n\t}\n\n\tv.x.Set(x)"),
 ("C06__failed_decode_clobbers_receiver", "point_s11n.go", "\ty, hasSqrt := field.NewElement().Sqrt(maybeYY(x))\n\tif hasSqrt != 1 {", "\tv.x.Set(x)\n\ty, hasSqrt := field.NewElement().Sqrt(maybeYY(x))\n\tif hasSqrt != 1 {"),
 ("C06__onaff_constant", "point_s11n.go", "feB = field.NewElementFromUint64(7)", "feB = field.NewElementFromUint64(8)"),
 ("C12__revert_f1_unused_bits_check", "secec/s11n.go", "\tif subjectPublicKey.BitLength != 8*len(subjectPublicKey.Bytes) {\n\t\treturn nil, errInvalidAsn1SPKI\n\t}\n", ""),
 ("C12__der_trailing_garbage_in_sequence", "secec/s11n.go", "\t\t!inner.ReadASN1Integer(&sBytes) ||\n\t\t!inner.Empty() {", "\t\t!inner.ReadASN1Integer(&sBytes) {"),
 ("C12__bip66_max_len_74", "secec/bitcoin/asn1_shitcoin.go", "case lenSig > 73:", "case lenSig > 74:"),
 ("C12__compact_s_zero_accepted", "secec/s11n.go", "\tif err != nil || s.IsZero() != 0 {\n\t\treturn nil, nil, errInvalidScalar\n\t}\n\n\treturn r, s, nil\n}\n\n// BuildCompactSignature", "\tif err != nil {\n\t\treturn nil, nil, errInvalidScalar\n\t}\n\n\treturn r, s, nil\n}\n\n// BuildCompactSignature"),
 ("C12__scalar_33_bytes", "secec/s11n.go", "if sLen > secp256k1.ScalarSize || sLen == 0 {", "if sLen > secp256k1.ScalarSize+1 || sLen == 0 {"),
 ("C12__spki_wrong_curve_oid_accepted", "secec/s11n.go", "\tif !oidCurve.Equal(oidSecp256k1) {\n\t\treturn nil, errInvalidAsn1Curve\n\t}\n", ""),
 ("C04__ladder_offset_15", "point_mul_glv.go", "\tconst off = 16\n\tk1Bytes, k2Bytes := k1.Bytes(), k2.Bytes()\n\tk1Bytes, k2Bytes = k1Bytes[off:], k2Bytes[off:]\n\n\tfor i := 0; i < ScalarSize-off; i++ {\n\t\tif i != 0 {\n\t\t\tv.doubleComplete(v)\n\t\t\tv.doubleComplete(v)\n\t\t\tv.doubleComplete(v)\n\t\t\tv.doubleComplete(v)\n\t\t}\n\n\t\tbK1, bK2 := k1Bytes[i], k2Bytes[i]\n\n\t\tpTbl.SelectAndAdd(", "\tconst off = 17\n\tk1Bytes, k2Bytes := k1.Bytes(), k2.Bytes()\n\tk1Bytes, k2Bytes = k1Bytes[off:], k2Bytes[off:]\n\n\tfor i := 0; i < ScalarSize-off; i++ {\n\t\tif i != 0 {\n\t\t\tv.doubleComplete(v)\n\t\t\tv.doubleComplete(v)\n\t\t\tv.doubleComplete(v)\n\t\t\tv.doubleComplete(v)\n\t\t}\n\n\t\tbK1, bK2 := k1Bytes[i], k2Bytes[i]\n\n\t\tpTbl.SelectAndAdd("),
 ("C04__rounding_bit_dropped", "point_mul_glv.go", "shouldAdd := (c5 >> 63) & 1", "shouldAdd := (c5 >> 63) & 0"),
 ("C04__split_wrong_constant", "point_mul_glv.go", "k2 := NewScalar().Multiply(c1, scNegB1)", "k2 := NewScalar().Multiply(c1, scNegB2)"),
 ("C04__table_odd_entry", "point_mul_table.go", "tbl[i+1].addComplete(&tbl[i], p)", "tbl[i+1].addComplete(&tbl[i], &tbl[i/2])"),
 ("C04__vartime_negate_only_scalar", "point_mul_glv.go", "\tif k2.IsGreaterThanHalfN() == 1 {\n\t\tk2.Negate(k2)\n\t\tpeePrime.Negate(peePrime)\n\t}", "\tif k2.IsGreaterThanHalfN() == 1 {\n\t\tk2.Negate(k2)\n\t\tpeePrime.Negate(pee)\n\t}"),
 ("C04__lookup_off_by_one", "point_mul_table_ref.go", "out.uncheckedConditionalSelect(out, &tbl[i-1], helpers.Uint64Equal(idx, i))\n\t}\n}\n\nfunc lookupAffinePoint", "out.uncheckedConditionalSelect(out, &tbl[i-1], helpers.Uint64Equal(idx, i|8))\n\t}\n}\n\nfunc lookupAffinePoint"),
 ("C05__nibbles_swapped", "point_mul_table.go", "\t\toddTbls[tblIdx].SelectAndAdd(v, uint64(b>>4))", "\t\toddTbls[tblIdx].SelectAndAdd(v, uint64(b&0xf))"),
 ("C05__odd_table_index", "point_mul_table.go", "fromIdx := (16 + j<<4) - 1", "fromIdx := (15 + j<<4) - 1"),
 ("C05__vartime_table_reversed", "point_mul_table.go", "\t\ttbl[ScalarSize-(1+i)].SelectAndAddVartime(v, uint64(b))", "\t\ttbl[i].SelectAndAddVartime(v, uint64(b))"),
 ("C05__infinity_not_masked", "point_mul_table.go", "return sum.uncheckedConditionalSelect(tmp, sum, isInfinity)", "return sum.uncheckedConditionalSelect(tmp, tmp, isInfinity)"),
 ("C05__table_file_corrupted", "internal/gentable/point_mul_table.go", "package gentable", "package gentable // (the data file is patched separately)"),
 ("C07__identity_R_accepted", "secec/ecdsa.go", "\tif R.IsIdentity() != 0 {\n\t\treturn errRIsInfinity\n\t}\n\n\t// 6. Convert", "\tif R.IsIdentity() > 1 {\n\t\treturn errRIsInfinity\n\t}\n\n\t// 6. Convert"),
 ("C07__malleable_check_on_r", "secec/ecdsa.go", "if rejectMalleable && s.IsGreaterThanHalfN() != 0 {", "if rejectMalleable && r.IsGreaterThanHalfN() != 0 {"),
 ("C07__u1_u2_swapped", "secec/ecdsa.go", "R.DoubleScalarMultBasepointVartime(u1, u2, q.point)", "R.DoubleScalarMultBasepointVartime(u2, u1, q.point)"),
 ("C07__short_digest_padded", "secec/ecdsa.go", "if len(hash) < secp256k1.ScalarSize {", "if len(hash) < secp256k1.ScalarSize-1 {"),
 ("C07__bip66_sighash_not_stripped", "secec/bitcoin/ecdsa_shitcoin.go", "return k.Verify(digest, sig[:len(sig)-1], optsShitcoin)", "return k.Verify(digest, sig[:len(sig)-2], optsShitcoin)"),
 ("C10__zero_private_key", "secec/secec.go", "\tif s.IsZero() != 0 {\n\t\treturn nil, errInvalidPrivateKey\n\t}\n\n\t// Note: Caller ensures", "\tif s.IsZero() > 1 {\n\t\treturn nil, errInvalidPrivateKey\n\t}\n\n\t// Note: Caller ensures"),
 ("C10__privkey_not_copied", "secec/secec.go", "return newPrivateKeyFromScalar(secp256k1.NewScalarFrom(s))", "return newPrivateKeyFromScalar(s)"),
 ("C10__reduced_key_accepted", "secec/secec.go", "\tif didReduce != 0 {\n\t\treturn nil, errInvalidPrivateKey\n\t}", "\tif didReduce > 1 {\n\t\treturn nil, errInvalidPrivateKey\n\t}"),
 ("C10__identity_pubkey", "secec/secec.go", "\tif pt.IsIdentity() != 0 {\n\t\treturn nil, errAIsInfinity\n\t}", "\tif pt.IsIdentity() > 1 {\n\t\treturn nil, errAIsInfinity\n\t}"),
  ("C08__s_formula_sign", "secec/ecdsa.go", "s.Multiply(r, d.scalar).Add(s, e).Multiply(s, kInv)", "s.Multiply(r, d.scalar).Subtract(s, e).Multiply(s, kInv)"),
 ("C08__recid_not_flipped", "secec/ecdsa.go", "\trecoveryID ^= byte(negateS)\n", "\trecoveryID ^= byte(negateS) & 0\n"),
 ("C08__recid_bits_swapped", "secec/ecdsa.go", "recoveryID = (byte(didReduce) << 1) | byte(rYIsOdd)", "recoveryID = (byte(rYIsOdd) << 1) | byte(didReduce)"),
 ("C08__lows_skipped", "secec/ecdsa.go", "\ts.ConditionalNegate(s, negateS)\n\trecoveryID", "\ts.ConditionalNegate(s, negateS&0)\n\trecoveryID"),
 ("C08__r_zero_not_retried", "secec/ecdsa.go", "\t\tif r.IsZero() != 0 {\n\t\t\t// This is essentially", "\t\tif r.IsZero() > 1 {\n\t\t\t// This is essentially"),
 ("C08__selfverify_swapped_args", "secec/ecdsa.go", "if err = verify(k, nil, digest, r, s); err != nil {", "if err = verify(k, nil, digest, s, r); err != nil {"),
 ("C08__invalid_encoding_signed", "secec/ecdsa.go", "\t\t// \"Why, yes, this is after SignRaw. Don't do that then.\"\n\t\treturn nil, errInvalidEncoding", "\t\tsig = BuildCompactSignature(r, s)"),
 ("C08__digest_len_unchecked", "secec/ecdsa.go", "\t\texpectedLen := hashFn.Size()\n\t\tif len(digest) != expectedLen {\n\t\t\treturn nil, errInvalidDigest\n\t\t}\n\t}\n\n\tr, s, v, err := k.SignRaw", "\t\texpectedLen := hashFn.Size()\n\t\tif len(digest) < expectedLen {\n\t\t\treturn nil, errInvalidDigest\n\t\t}\n\t}\n\n\tr, s, v, err := k.SignRaw"),
 ("C08__recoverable_v_masked", "secec/ecdsa.go", "sig = BuildCompactRecoverableSignature(r, s, v)", "sig = BuildCompactRecoverableSignature(r, s, v&1)"),
 ("C08__compact_order_swapped", "secec/s11n.go", "\tdst = append(dst, r.Bytes()...)\n\tdst = append(dst, s.Bytes()...)", "\tdst = append(dst, s.Bytes()...)\n\tdst = append(dst, r.Bytes()...)"),
 ("C08__kinv_of_r", "secec/ecdsa.go", "kInv := secp256k1.NewScalar().Invert(k) //nolint:revive", "kInv := secp256k1.NewScalar().Invert(r) //nolint:revive"),
 ("C09__reduce_instead_of_reject", "secec/ecdsa.go", "if didReduce == 0 && s.IsZero() == 0 { // Short circuit reject is ok.", "if didReduce <= 1 && s.IsZero() == 0 { // Short circuit reject is ok."),
 ("C09__entropy_16_bytes", "secec/ecdsa.go", "if _, err := io.ReadFull(rand, tmp[:]); err != nil {\n\t\treturn nil, fmt.Errorf(\"%w: %w\", errEntropySource, err)\n\t}\n\n\txof :=", "if _, err := io.ReadFull(rand, tmp[:16]); err != nil {\n\t\treturn nil, fmt.Errorf(\"%w: %w\", errEntropySource, err)\n\t}\n\n\txof :="),
 ("C09__xof_order", "secec/ecdsa.go", "\t_, _ = xof.Write(tmp[:])\n\t_, _ = xof.Write(e.Bytes())", "\t_, _ = xof.Write(e.Bytes())\n\t_, _ = xof.Write(tmp[:])"),
 ("C09__entropy_not_mixed", "secec/ecdsa.go", "\t_, _ = xof.Write(tmp[:])\n", "\t_ = tmp\n"),
 ("C09__key_not_mixed", "secec/ecdsa.go", "\t_, _ = xof.Write(k.scalar.Bytes())\n", "\t_, _ = xof.Write(e.Bytes())\n"),
 ("C09__drbg_skip_updateK", "secec/ecdsa_k_rfc6979.go", "\t\tdrbg.updateK()\n\t\tdrbg.updateV()\n\t}", "\t\tdrbg.updateV()\n\t}"),
 ("C09__drbg_octet", "secec/ecdsa_k_rfc6979.go", "\t_, _ = m.Write([]byte{0x00})\n\tdrbg.k = m.Sum(drbg.k[:0])", "\t_, _ = m.Write([]byte{0x01})\n\tdrbg.k = m.Sum(drbg.k[:0])"),
 ("C09__drbg_init_order", "secec/ecdsa_k_rfc6979.go", "\tinitUpdateK(0x00) // Step d\n\tdrbg.updateV()    // Step e\n\tinitUpdateK(0x01) // Step f", "\tinitUpdateK(0x01) // Step d\n\tdrbg.updateV()    // Step e\n\tinitUpdateK(0x00) // Step f"),
 ("C09__drbg_missing_final_updateV", "secec/ecdsa_k_rfc6979.go", "\tinitUpdateK(0x01) // Step f\n\tdrbg.updateV()    // Step g\n", "\tinitUpdateK(0x01) // Step f\n"),
 ("C09__sampler_nine_tries", "secec/ecdsa.go", "for i := 0; i < maxScalarResamples; i++ {", "for i := 0; i <= maxScalarResamples; i++ {"),
 ("C09__read_error_ignored", "secec/ecdsa.go", "\t\tif _, err := io.ReadFull(rand, tmp[:]); err != nil {\n\t\t\treturn nil, fmt.Errorf(\"%w: %w\", errEntropySource, err)\n\t\t}\n\n\t\t_, didReduce", "\t\t_, _ = io.ReadFull(rand, tmp[:])\n\n\t\t_, didReduce"),
 ("C09__sentinel_ignored", "secec/ecdsa.go", "\tcase readerRFC6979SHA256:\n\t\treturn newDrbgRFC6979(k.scalar, e), nil\n\tcase nil:", "\tcase nil, readerRFC6979SHA256:"),
 ("C13__odd_y_accepted", "secec/bitcoin/schnorr.go", "\tif rYIsOdd != 0 {\n\t\treturn false\n\t}", "\tif rYIsOdd > 1 {\n\t\treturn false\n\t}"),
 # (removed C13__r_not_canonical: dropping the r < p test is an equivalent mutant, x(R) is compared bytewise with a canonical encoding)
 ("C13__challenge_tag", "secec/bitcoin/schnorr.go", "schnorrTagChallenge = \"BIP0340/challenge\"", "schnorrTagChallenge = \"BIP0340/challeng3\""),
 ("C13__e_not_negated", "secec/bitcoin/schnorr.go", "\te.Negate(e)\n\tR := secp256k1.NewIdentityPoint().DoubleScalarMultBasepointVartime(s, e, k.point)", "\te.Negate(e).Negate(e)\n\tR := secp256k1.NewIdentityPoint().DoubleScalarMultBasepointVartime(s, e, k.point)"),
 ("C13__challenge_order", "secec/bitcoin/schnorr.go", "eBytes := schnorrTaggedHash(schnorrTagChallenge, sigRXBytes, pkXBytes, msg)", "eBytes := schnorrTaggedHash(schnorrTagChallenge, pkXBytes, sigRXBytes, msg)"),
 ("C13__identity_R", "secec/bitcoin/schnorr.go", "\tif R.IsIdentity() != 0 {\n\t\treturn false\n\t}", "\tif R.IsIdentity() > 1 {\n\t\treturn false\n\t}"),
 ("C13__pubkey_odd_prefix", "secec/bitcoin/schnorr.go", "ptBytes[0] = 0x02", "ptBytes[0] = 0x03"),
 ("C13__x_mismatch_ignored", "secec/bitcoin/schnorr.go", "\tif !bytes.Equal(rXBytes, sigRXBytes) {\n\t\treturn false\n\t}", "\tif !bytes.Equal(rXBytes[:31], sigRXBytes[:31]) {\n\t\treturn false\n\t}"),
 ("C14__nonce_no_aux", "secec/bitcoin/schnorr.go", "subtle.XORBytes(t[:], schnorrTaggedHash(schnorrTagAux, auxRand[:]), d.Bytes())", "subtle.XORBytes(t[:], make([]byte, 32), d.Bytes())"),
 ("C14__k_not_negated", "secec/bitcoin/schnorr.go", "k := secp256k1.NewScalar().ConditionalNegate(kPrime, rYIsOdd)", "k := secp256k1.NewScalar().ConditionalNegate(kPrime, rYIsOdd&0)"),
 ("C14__s_formula", "secec/bitcoin/schnorr.go", "sum.Add(k, sum)                             // k + ed", "sum.Subtract(k, sum)                        // k + ed"),
 ("C14__d_not_normalised", "secec/bitcoin/schnorr.go", "priv.d = secp256k1.NewScalar().ConditionalNegate(priv.dPrime, negateD)", "priv.d = secp256k1.NewScalar().ConditionalNegate(priv.dPrime, negateD&0)"),
 ("C14__frompoint_no_negate", "secec/bitcoin/schnorr.go", "pt.ConditionalNegate(pt, pt.IsYOdd())", "pt.ConditionalNegate(pt, pt.IsYOdd()&0)"),
 ("C14__nonce_tag", "secec/bitcoin/schnorr.go", "schnorrTagNonce     = \"BIP0340/nonce\"", "schnorrTagNonce     = \"BIP0340/aux\""),
 ("C14__msg_not_in_nonce", "secec/bitcoin/schnorr.go", "rand := schnorrTaggedHash(schnorrTagNonce, t[:], pBytes, msg)", "rand := schnorrTaggedHash(schnorrTagNonce, t[:], pBytes)"),
 ("C14__aux_short_read", "secec/bitcoin/schnorr.go", "if _, err := io.ReadFull(rand, auxEntropy[:]); err != nil {", "if _, err := io.ReadFull(rand, auxEntropy[:16]); err != nil {"),
 ("C16__msm_high_nibble_twice", "point_mul_multi.go", "\t\t\tpTbls[j].SelectAndAdd(v, uint64(b&0xf))", "\t\t\tpTbls[j].SelectAndAdd(v, uint64(b>>4))"),
 ("C16__msm_receiver_reset_before_tables", "point_mul_multi.go", "\tpTbls := make([]projectivePointMultTable, l)\n\tsBytes := make([][ScalarSize]byte, l)\n\tfor i := 0; i < l; i++ {\n\t\tpTbls[i] = newProjectivePointMultTable(points[i])\n\t\tscalars[i].getBytes(&sBytes[i])\n\t}\n\n\tv.Identity()\n\n\tfor i := 0; i < ScalarSize; i++ {\n\t\tif i != 0 {\n\t\t\tv.doubleComplete(v)\n\t\t\tv.doubleComplete(v)\n\t\t\tv.doubleComplete(v)\n\t\t\tv.doubleComplete(v)\n\t\t}\n\n\t\tfor j := 0; j < l; j++ {\n\t\t\tb := sBytes[j][i]\n\t\t\tpTbls[j].SelectAndAdd(v, uint64(b>>4))", "\tv.Identity()\n\n\tpTbls := make([]projectivePointMultTable, l)\n\tsBytes := make([][ScalarSize]byte, l)\n\tfor i := 0; i < l; i++ {\n\t\tpTbls[i] = newProjectivePointMultTable(points[i])\n\t\tscalars[i].getBytes(&sBytes[i])\n\t}\n\n\tfor i := 0; i < ScalarSize; i++ {\n\t\tif i != 0 {\n\t\t\tv.doubleComplete(v)\n\t\t\tv.doubleComplete(v)\n\t\t\tv.doubleComplete(v)\n\t\t\tv.doubleComplete(v)\n\t\t}\n\n\t\tfor j := 0; j < l; j++ {\n\t\t\tb := sBytes[j][i]\n\t\t\tpTbls[j].SelectAndAdd(v, uint64(b>>4))"),
 ("C16__msm_length_check", "point_mul_multi.go", "\tl := len(scalars)\n\tif l != len(points) {\n\t\tpanic(\"secp256k1: len(scalars) != len(points)\")\n\t}\n\n\tif l == 1 {\n\t\treturn v.ScalarMult(scalars[0], points[0])", "\tl := len(scalars)\n\tif l > len(points) {\n\t\tpanic(\"secp256k1: len(scalars) != len(points)\")\n\t}\n\n\tif l == 1 {\n\t\treturn v.ScalarMult(scalars[0], points[0])"),
 ("C16__msm_vartime_last_point_skipped", "point_mul_multi.go", "\t\tfor j := 0; j < l; j++ {\n\t\t\tb := sBytes[j][i]\n\t\t\tpTbls[j].SelectAndAddVartime(v, uint64(b&0xf))", "\t\tfor j := 0; j < l-1+(i&1|1); j++ {\n\t\t\tb := sBytes[j][i]\n\t\t\tpTbls[j].SelectAndAddVartime(v, uint64(b&0xf))"),
 ("C16__msm_vartime_missing_doubling", "point_mul_multi.go", "\t\t\tpTbls[j].SelectAndAddVartime(v, uint64(b>>4))\n\t\t}\n\n\t\tv.doubleComplete(v)\n\t\tv.doubleComplete(v)\n\t\tv.doubleComplete(v)\n\t\tv.doubleComplete(v)", "\t\t\tpTbls[j].SelectAndAddVartime(v, uint64(b>>4))\n\t\t}\n\n\t\tv.doubleComplete(v)\n\t\tv.doubleComplete(v)\n\t\tv.doubleComplete(v)\n\t\tv.Add(v, v)"),
 ("C16__double_scalar_swapped", "point_mul_glv.go", "\tu1g := newRcvr().scalarBaseMultVartime(u1)\n\tu2p := newRcvr().scalarMultVartimeGLV(u2, p)", "\tu1g := newRcvr().scalarBaseMultVartime(u2)\n\tu2p := newRcvr().scalarMultVartimeGLV(u1, p)"),
 ("C11__negE_dropped", "secec/ecdsa.go", "u1 := secp256k1.NewScalar().Multiply(negE, rInv)", "u1 := secp256k1.NewScalar().Multiply(e, rInv)\n\t_ = negE"),
 ("C11__id_bound", "point_s11n.go", "if recoveryID >= 4 {", "if recoveryID > 4 {"),
 ("C11__s_zero_allowed", "secec/ecdsa.go", "if r.IsZero() != 0 || s.IsZero() != 0 {\n\t\treturn nil, errInvalidRorS\n\t}\n\n\t// This roughly", "if r.IsZero() != 0 {\n\t\treturn nil, errInvalidRorS\n\t}\n\n\t// This roughly"),
 # harmless refactorings: must stay green
 ("pass__C01__rename_local", "internal/field/field.go", "\tl := helpers.BytesToSaturated(src)\n\n\tdidReduce := reduceSaturated(&l, &l)\n\tfe.uncheckedSetSaturated(&l)\n\n\treturn fe, didReduce", "\tlimbs := helpers.BytesToSaturated(src)\n\n\twasReduced := reduceSaturated(&limbs, &limbs)\n\tfe.uncheckedSetSaturated(&limbs)\n\n\treturn fe, wasReduced"),
 ("pass__C03__commuted_add", "point_projective.go", "\t// t4 := t0 + t1 ; t3 := t3 - t4 ; t4 := Y1 + Z1 ;\n\tt4.Add(t0, t1)\n\tt3.Subtract(t3, t4)\n\tt4.Add(y1, z1)\n\n\t// X3 := Y2 + Z2", "\t// t4 := t0 + t1 ; t3 := t3 - t4 ; t4 := Y1 + Z1 ;\n\tt4.Add(t1, t0)\n\tt3.Subtract(t3, t4)\n\tt4.Add(z1, y1)\n\n\t// X3 := Y2 + Z2"),
 ("pass__C06__reordered_checks", "point_s11n.go", "\tv.x.Set(x)\n\tv.y.Set(y)\n\tv.z.One()\n\tv.isValid = true\n\n\treturn v, nil\n}\n\n// SetBytes", "\tv.isValid = true\n\tv.z.One()\n\tv.y.Set(y)\n\tv.x.Set(x)\n\n\treturn v, nil\n}\n\n// SetBytes"),
]
only = sys.argv[1:] 
for name, f, old, new in M:
    if only and not any(o in name for o in only): continue
    src = open('/repo/' + f).read()
    if src.count(old) != 1:
        print("SKIP %s: pattern occurs %d times" % (name, src.count(old))); continue
    d = tempfile.mkdtemp()
    a = os.path.join(d, 'a', f); b = os.path.join(d, 'b', f)
    os.makedirs(os.path.dirname(a)); os.makedirs(os.path.dirname(b))
    open(a, 'w').write(src); open(b, 'w').write(src.replace(old, new))
    p = subprocess.run(['diff', '-u', 'a/' + f, 'b/' + f], cwd=d, capture_output=True, text=True)
    open(os.path.join(OUT, name + '.diff'), 'w').write(p.stdout)
    shutil.rmtree(d)
    print("wrote", name)
