#!/bin/bash
# Must-fail / must-pass corpus for the verifier itself.
#   selftest/mutations/<PROP>__<name>.diff        applied to a scratch copy of /repo: ./check PROP must exit 1
#   selftest/mutations/pass__<PROP>__<name>.diff  harmless refactoring: ./check PROP must exit 0
# usage: selftest/run.sh [pattern]
HERE="$(cd "$(dirname "$0")/.." && pwd)"
PAT="${1:-}"
fail=0; n=0
# private copy of the verifier so that the corpus can run while the engine is being rebuilt
VERIF_EVIDENCE_DIR=$(mktemp -d /tmp/vcgo-ev-XXXXXX) "$HERE/check" C00 quick >/dev/null 2>&1   # builds the binary if needed
BINDIR=$(mktemp -d /tmp/vcgo-selftest-bin-XXXXXX); cp "$HERE/bin/vcgo" "$BINDIR/vcgo"
for d in "$HERE"/selftest/mutations/*${PAT}*.diff; do
  [ -f "$d" ] || continue
  base=$(basename "$d" .diff)
  expect=1; name="$base"
  case "$base" in pass__*) expect=0; name="${base#pass__}";; esac
  prop="${name%%__*}"
  scratch=$(mktemp -d /tmp/vcgo-selftest-XXXXXX)
  git -C /repo archive HEAD | tar -x -C "$scratch"   # committed state: edits in progress in /repo do not disturb the corpus
  if ! (cd "$scratch" && patch -p1 -s < "$d"); then echo "PATCH-FAILED $base"; fail=1; rm -rf "$scratch"; continue; fi
  if ! (cd "$scratch" && GOFLAGS=-mod=mod GOPROXY=off GOSUMDB=off go build ./... >/dev/null 2>&1); then echo "DOES-NOT-COMPILE $base"; fail=1; rm -rf "$scratch"; continue; fi
  out=$(VCGO_BIN="$BINDIR/vcgo" VERIF_REPO="$scratch" VERIF_EVIDENCE_DIR="$scratch/.ev" VERIF_OUT_DIR="$scratch/.out" VERIF_REPLAY_DIR="$scratch/.replay" "$HERE/check" "$prop" quick 2>&1); rc=$?
  n=$((n+1))
  if echo "$out" | grep -q 'obligation=engine.load'; then echo "LOAD-ERROR $base"; echo "$out" | grep ENGINE-ERROR | head -2; fail=1
  elif [ "$rc" = "$expect" ]; then echo "ok       $base (exit $rc) $(echo "$out" | grep -c '^VIOLATION') violations"; else echo "WRONG    $base expected exit $expect got $rc"; echo "$out" | tail -5; fail=1; fi
  rm -rf "$scratch"
done
rm -rf "$BINDIR"
echo "selftest: $n cases, fail=$fail"
exit $fail
