import subprocess,time
n=0xFFFFFFFFFFFFFFFFFFFFFFFFFFFFFFFEBAAEDCE6AF48A03BBFD25E8CD0364141
lam=0x5363ad4cc05c30e0a5261c028812645a122e22ea20816678df02967c1b23bd72
a1=0x3086d221a7d46bcde86c90e49284eb15; nb1=0xe4437ed6010e88286f547fa90abfe4c3
a2=0x114ca50f7a8e2f3f657c1108d9d44cfd8; b2=0x3086d221a7d46bcde86c90e49284eb15
g1=0x3086d221a7d46bcde86c90e49284eb153daa8a1471e8ca7fe893209a45dbb031
g2=0xe4437ed6010e88286f547fa90abfe4c4221208ac9df506c61571b4ae8ac47f71
assert (a1 + (-nb1)*lam)%n==0 and (a2+b2*lam)%n==0
assert a1*b2 - a2*(-nb1) == n
neglam=0xac9c52b33fa3cf1f5ad9e3fd77ed9ba4a880b9fc8ec739c2e0cfc810b51283cf
assert (neglam+lam)%n==0
print(round(2**384*b2/n)==g1 if False else ((2**384*b2+n//2)//n==g1), (2**384*nb1+n//2)//n==g2)
def vc(goal):
    return f"""(set-logic QF_LIA)
(declare-const k Int)(declare-const c1 Int)(declare-const r1 Int)(declare-const c2 Int)(declare-const r2 Int)
(assert (and (<= 0 k) (< k {n})))
(assert (and (<= 0 r1) (< r1 {2**384}) (<= 0 r2) (< r2 {2**384})))
(assert (= (+ (* k {g1}) {2**383}) (+ (* c1 {2**384}) r1)))
(assert (= (+ (* k {g2}) {2**383}) (+ (* c2 {2**384}) r2)))
(assert (not {goal}))
(check-sat)
"""
B=2**128
goals={'k1':f'(and (< (- {B}) (- k (* c1 {a1}) (* c2 {a2}))) (< (- k (* c1 {a1}) (* c2 {a2})) {B}))',
 'k2':f'(and (< (- {B}) (- (* c1 {nb1}) (* c2 {b2}))) (< (- (* c1 {nb1}) (* c2 {b2})) {B}))',
 'c':f'(and (<= 0 c1) (< c1 {B}) (<= 0 c2) (< c2 {B}))'}
for g,f in goals.items():
    open(f'glv_{g}.smt2','w').write(vc(f))
    for s in ['z3','z3-new','cvc5']:
        t=time.time()
        try: out=subprocess.run([s,f'glv_{g}.smt2'],capture_output=True,text=True,timeout=60).stdout.strip().split('\n')[0]
        except subprocess.TimeoutExpired: out='timeout'
        print(g,s,out,round(time.time()-t,2))
