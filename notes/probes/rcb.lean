import Mathlib.Tactic.Ring
import Mathlib.Tactic.LinearCombination

-- straight-line transcription of addComplete (as the VC generator would emit it) vs closed form
theorem addComplete_X {R : Type} [CommRing R] (X1 Y1 Z1 X2 Y2 Z2 : R) :
    let b3 : R := 21
    let t0 := X1 * X2
    let t1 := Y1 * Y2
    let t2 := Z1 * Z2
    let t3 := X1 + Y1
    let t4 := X2 + Y2
    let t3 := t3 * t4
    let t4 := t0 + t1
    let t3 := t3 - t4
    let t4 := Y1 + Z1
    let x3 := Y2 + Z2
    let t4 := t4 * x3
    let x3 := t1 + t2
    let t4 := t4 - x3
    let x3 := X1 + Z1
    let y3 := X2 + Z2
    let x3 := x3 * y3
    let y3 := t0 + t2
    let y3 := x3 - y3
    let x3 := t0 + t0
    let t0 := x3 + t0
    let t2 := b3 * t2
    let z3 := t1 + t2
    let t1 := t1 - t2
    let y3 := b3 * y3
    let x3 := t4 * y3
    let t2 := t3 * t1
    let x3 := t2 - x3
    let y3 := y3 * t0
    let t1 := t1 * z3
    let y3 := t1 + y3
    let t0 := t0 * t3
    let z3 := z3 * t4
    let z3 := z3 + t0
    x3 = (X1*Y2 + X2*Y1)*(Y1*Y2 - 21*Z1*Z2) - 21*(Y1*Z2 + Y2*Z1)*(X1*Z2 + X2*Z1)
    ∧ y3 = (Y1*Y2 + 21*Z1*Z2)*(Y1*Y2 - 21*Z1*Z2) + 63*X1*X2*(X1*Z2 + X2*Z1)
    ∧ z3 = (Y1*Z2 + Y2*Z1)*(Y1*Y2 + 21*Z1*Z2) + 3*X1*X2*(X1*Y2 + X2*Y1) := by
  intros
  refine ⟨?_, ?_, ?_⟩ <;> ring
