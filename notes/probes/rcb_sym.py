import time
from sympy import symbols, expand, reduced, Poly, GF, groebner, factor
X1,Y1,Z1,X2,Y2,Z2 = symbols('X1 Y1 Z1 X2 Y2 Z2')
b3=21
X3=(X1*Y2+X2*Y1)*(Y1*Y2-b3*Z1*Z2)-b3*(Y1*Z2+Y2*Z1)*(X1*Z2+X2*Z1)
Y3=(Y1*Y2+b3*Z1*Z2)*(Y1*Y2-b3*Z1*Z2)+3*b3*X1*X2*(X1*Z2+X2*Z1)
Z3=(Y1*Z2+Y2*Z1)*(Y1*Y2+b3*Z1*Z2)+3*X1*X2*(X1*Y2+X2*Y1)
C1=Y1**2*Z1-X1**3-7*Z1**3
C2=Y2**2*Z2-X2**3-7*Z2**3
# 1. closure
t=time.time()
f=expand(Y3**2*Z3-X3**3-7*Z3**3)
print('closure poly terms', len(Poly(f,X1,Y1,Z1,X2,Y2,Z2).terms()), time.time()-t)
t=time.time()
q,r=reduced(f,[C1,C2],Y1,Y2,X1,X2,Z1,Z2,order='lex')
print('closure remainder', r, 'cofactor terms', [len(Poly(c,X1,Y1,Z1,X2,Y2,Z2).terms()) for c in q], time.time()-t)
# 2. affine chord agreement
x1,y1,x2,y2=symbols('x1 y1 x2 y2')
sub={X1:x1,Y1:y1,Z1:1,X2:x2,Y2:y2,Z2:1}
X3a,Y3a,Z3a=[expand(e.subs(sub)) for e in (X3,Y3,Z3)]
c1=y1**2-x1**3-7; c2=y2**2-x2**3-7
dx=x2-x1; dy=y2-y1
x3n=dy**2-(x1+x2)*dx**2          # x3 = x3n/dx^2
# y3 = lam*(x1-x3)-y1 = (dy*(x1*dx^2 - x3n) - y1*dx^3)/dx^3
y3n=dy*(x1*dx**2-x3n)-y1*dx**3
e1=expand(X3a*dx**2-Z3a*x3n)
e2=expand(Y3a*dx**3-Z3a*y3n)
for name,e in (('chordX',e1),('chordY',e2)):
    q,r=reduced(e,[c1,c2],y1,y2,x1,x2,order='lex'); print(name,'rem',r)
# 3. doubling closed forms vs addition with P=Q, and vs tangent
X,Y,Z=symbols('X Y Z')
b=7
dX=2*X*Y*(Y**2-9*b*Z**2); dY=(Y**2-9*b*Z**2)*(Y**2+3*b*Z**2)+24*b*Y**2*Z**2; dZ=8*Y**3*Z
CC=Y**2*Z-X**3-7*Z**3
s={X1:X,Y1:Y,Z1:Z,X2:X,Y2:Y,Z2:Z}
# add(P,P) vs dbl(P) proportional modulo curve: cross products
for name,e in (('XY',expand(X3.subs(s)*dY-Y3.subs(s)*dX)),('XZ',expand(X3.subs(s)*dZ-Z3.subs(s)*dX)),('YZ',expand(Y3.subs(s)*dZ-Z3.subs(s)*dY))):
    q,r=reduced(e,[CC],Y,X,Z,order='lex'); print('add(P,P)~dbl',name,'rem',r)
# 4. identity cases
sI={X2:0,Z2:0}
print('P+O =', [factor(e.subs(sI)) for e in (X3,Y3,Z3)])
# 5. P + (-P)
sN={X2:X1,Y2:-Y1,Z2:Z1}
print('P+(-P)=', [factor(e.subs(sN)) for e in (X3,Y3,Z3)])
