exec(open('vc_mul_rounds.py').read().split('prev_end=0')[0])
prev_end=0; lem_prev=None
for r in range(4):
    end=lastdef(acc[r])+1
    while not re.search(r"\b%s\b"%acc[r][-1], asserts[end-1]) or asserts[end-1].startswith("(and"): end+=1
    L=hdr(); L[0]='(set-logic ALL)'
    for a in asserts[prev_end:end]: L.append('(assert %s)'%a)
    for a in asserts:
        if a.startswith('(and (<= 0 P'): L.append('(assert %s)'%a)
    if lem_prev:
        L.append('(assert %s)'%lem_prev)
        L.append('(assert (and %s))'%' '.join('(<= 0 %s) (< %s %d)'%(v,v,W) for v in acc[r-1]))
    lhs='(* %d %s)'%(W**(r+1), ev(acc[r]))
    rhs='(+ 0 %s)'%(' '.join('(* %d (+ %s))'%(W**i,aB(i)) for i in range(r+1)))
    lem='(= (mod %s %d) (mod %s %d))'%(lhs,P,rhs,P)
    run('mulroundmod%d.smt2'%r, L+['(assert (not %s))'%lem])
    prev_end=end; lem_prev=lem
