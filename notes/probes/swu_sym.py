from sympy import symbols, cancel, together, simplify, factor
u,A,B,Z=symbols('u A B Z')
t=Z**2*u**4+Z*u**2
x1=(-B/A)*(1+1/t)
g=lambda x: x**3+A*x+B
x2=Z*u**2*x1
print('g(x2) - Z^3 u^6 g(x1) =', simplify(cancel(g(x2)-Z**3*u**6*g(x1))))
# code view
tv1=Z*u**2; tv2=tv1**2+tv1; tv3=B*(tv2+1); tv4=A*(-tv2)
print('x1 code-form ok:', simplify(cancel(tv3/tv4-x1))==0)
num=(tv3**2+A*tv4**2)*tv3+B*tv4**3
print('gx1 code-form ok:', simplify(cancel(num/tv4**3-g(x1)))==0)
