# Throwaway feasibility probe: translate a fiat straight-line function into integer SMT.
import re, sys
src = open('/repo/internal/fiat/secp256k1montgomery/secp256k1montgomery.go').read()
def body(name):
    m = re.search(r'^func %s\(.*?\{\n(.*?)^\}' % name, src, re.S|re.M)
    return m.group(1)
W = 2**64
P = 2**256 - 2**32 - 977
def conv(e):
    e = e.strip()
    # strip casts
    while True:
        m = re.fullmatch(r'\(?(?:uint64|uint1)\((.*)\)\)?', e)
        if m and balanced(m.group(1)): e = m.group(1).strip()
        else: break
    if re.fullmatch(r'0x[0-9a-f]+', e): return str(int(e,16))
    m = re.fullmatch(r'(arg\d)\[(\d)\]', e)
    if m: return '%s_%s' % (m.group(1), m.group(2))
    if re.fullmatch(r'x\d+', e): return e
    raise Exception('conv: '+e)
def balanced(s):
    d=0
    for c in s:
        if c=='(': d+=1
        if c==')':
            d-=1
            if d<0: return False
    return d==0
def translate(name, mulabs=True):
    decls=set(); asserts=[]; fresh=[0]; prods={}
    def newv(p='t'):
        fresh[0]+=1; v='%s%d'%(p,fresh[0]); decls.add(v); return v
    def rng(v, hi=W): asserts.append('(and (<= 0 %s) (< %s %d))'%(v,v,hi))
    outs={}
    for line in body(name).split('\n'):
        line=line.strip()
        if not line or line.startswith('var '): continue
        m = re.fullmatch(r'(x\d+) := (arg\d\[\d\])', line)
        if m:
            decls.add(m.group(1)); asserts.append('(= %s %s)'%(m.group(1), conv(m.group(2)))); continue
        m = re.fullmatch(r'(\w+), (\w+) = bits\.(Mul64|Add64|Sub64)\((.*)\)', line)
        if m:
            a,b,op,args = m.groups()
            args = split_args(args)
            A=[conv(x) for x in args]
            if op=='Mul64':
                hi = a if a!='_' else newv('d'); lo = b if b!='_' else newv('d')
                decls.update([hi,lo]); rng(hi); rng(lo)
                x,y=A
                if y.isdigit() or x.isdigit():
                    prod='(* %s %s)'%(x,y)
                else:
                    key=(x,y)
                    if key not in prods:
                        pv=newv('P'); prods[key]=pv
                        asserts.append('(and (<= 0 %s) (<= %s %d))'%(pv,pv,(W-1)**2))
                    prod=prods[key]
                asserts.append('(= (+ (* %d %s) %s) %s)'%(W,hi,lo,prod))
            elif op=='Add64':
                s = a if a!='_' else newv('d'); c = b if b!='_' else newv('d')
                decls.update([s,c]); rng(s); rng(c,2)
                asserts.append('(= (+ %s (* %d %s)) (+ %s %s %s))'%(s,W,c,*A))
            else:
                s = a if a!='_' else newv('d'); c = b if b!='_' else newv('d')
                decls.update([s,c]); rng(s); rng(c,2)
                asserts.append('(= (- %s (* %d %s)) (- %s %s %s))'%(s,W,c,*A))
            continue
        m = re.fullmatch(r'(x\d+) := \((.*) \+ (.*)\)', line)
        if m:
            v=m.group(1); decls.add(v)
            # obligation: no overflow -- record, and define as exact sum
            asserts.append('(= %s (+ %s %s))'%(v,conv(m.group(2)),conv(m.group(3))))
            outs.setdefault('_nooverflow',[]).append(v)
            continue
        m = re.fullmatch(r'cmovznzU64\(&(x\d+), (.*?), (.*?), (.*?)\)', line)
        if m:
            v=m.group(1); decls.add(v)
            asserts.append('(= %s (ite (= %s 0) %s %s))'%(v,conv(m.group(2)),conv(m.group(3)),conv(m.group(4)))); continue
        m = re.fullmatch(r'out1\[(\d)\] = (.*)', line)
        if m:
            outs['out%s'%m.group(1)] = conv(m.group(2)); continue
        raise Exception('line: '+line)
    return decls, asserts, outs, prods
def split_args(s):
    out=[];d=0;cur=''
    for c in s:
        if c=='(' : d+=1
        if c==')' : d-=1
        if c==',' and d==0: out.append(cur); cur=''
        else: cur+=c
    out.append(cur); return out
if __name__=='__main__':
    name=sys.argv[1]
    decls,asserts,outs,prods=translate(name)
    print(len(decls),len(asserts),outs, len(prods))
