from sympy import symbols, expand, reduced, factor, Poly, div, gcd, cancel
x1,y1,x2,y2=symbols('x1 y1 x2 y2')
b3=21
Z3=(y1+y2)*(y1*y2+b3)+3*x1*x2*(x1*y2+x2*y1)
c1=y1**2-x1**3-7; c2=y2**2-x2**3-7
dx=x2-x1
# P - Q = P + (x2,-y2)
dyp=(-y2)-y1
x3n=dyp**2-(x1+x2)*dx**2
y3n=dyp*(x1*dx**2-x3n)-y1*dx**3     # y(P-Q) = y3n/dx^3
def nf(e):
    q,r=reduced(expand(e),[c1,c2],y1,y2,x1,x2,order='lex'); return r
a=nf(y3n); 
for k in range(0,4):
    b=nf(Z3*dx**k)
    print(k, 'nf(y3n)/nf(Z3*dx^k) =', factor(cancel(a/b)) if b!=0 else None)
# try: y3n * something = Z3 * dx^k ?  compute nf(y3n * Z3conj) etc.
Z3m=Z3.subs(y2,-y2)   # "conjugate" Z3 for P-Q
print('nf(Z3m*dx^3 - k*y3n):')
for kk in (1,-1,2,-2):
    print(kk, nf(Z3m*dx**3*0+0) if False else factor(nf(y3n*kk)- nf(0)) == 0)
print('Z3 * Z3m nf:', factor(nf(Z3*Z3m)))
print('y3n nf:', factor(a))
print('x3n for P+Q (denominator-free x(P+Q) num):')
