import sys, subprocess, time
from fiat2smt import *
name = sys.argv[1]; mode = sys.argv[2]
decls,asserts,outs,prods = translate(name)
W=2**64; R=2**256
lines=['(set-logic ALL)'] if mode.startswith('nia') else ['(set-logic QF_LIA)' if 'mod' not in mode else '(set-logic ALL)']
nargs = 2 if name=='Mul' else 1
for a in range(1,nargs+1):
    for i in range(4):
        v='arg%d_%d'%(a,i); lines.append('(declare-const %s Int)'%v); lines.append('(assert (and (<= 0 %s) (< %s %d)))'%(v,v,W))
    lines.append('(assert (< (+ %s) %d))'%(' '.join('(* %d arg%d_%d)'%(W**i,a,i) for i in range(4)),P))
for d in sorted(decls): lines.append('(declare-const %s Int)'%d)
for a in asserts: lines.append('(assert %s)'%a)
outeval='(+ %s)'%' '.join('(* %d %s)'%(W**i,outs['out%d'%i]) for i in range(4))
if name=='Mul':
    ab='(+ %s)'%' '.join('(* %d %s)'%(W**({'x1':1,'x2':2,'x3':3,'x4':0}[x]+int(y[-1])), pv) for (x,y),pv in prods.items())
    print(prods, file=sys.stderr)
if mode=='range':
    goal='(and %s (< %s %d))'%(' '.join('(< %s %d)'%(v,W) for v in outs['_nooverflow']), outeval, P)
elif mode=='novf':
    goal='(and %s)'%(' '.join('(< %s %d)'%(v,W) for v in outs['_nooverflow']))
elif mode=='mod':
    goal='(= (mod (* %d %s) %d) (mod %s %d))'%(R,outeval,P,ab,P)
elif mode=='wit':
    qs=sys.argv[3].split(',')
    q='(+ %s)'%' '.join('(* %d %s)'%(W**i,v) for i,v in enumerate(qs))
    sel=sys.argv[4]
    goal='(= (* %d %s) (- (+ %s (* %d %s)) (* %d (ite (= %s 0) 1 0))))'%(R,outeval,ab,P,q,R*P,sel)
lines.append('(assert (not %s))'%goal)
lines.append('(check-sat)')
open('vc_%s_%s.smt2'%(name,mode),'w').write('\n'.join(lines)+'\n')
