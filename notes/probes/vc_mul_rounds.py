import sys, subprocess, time, re
from fiat2smt import *
decls,asserts,outs,prods = translate('Mul')
W=2**64; R=2**256
amap={'x1':1,'x2':2,'x3':3,'x4':0}
def hdr(extra_decl=()):
    L=['(set-logic QF_LIA)']
    for a in (1,2):
        for i in range(4):
            v='arg%d_%d'%(a,i); L.append('(declare-const %s Int)'%v); L.append('(assert (and (<= 0 %s) (< %s %d)))'%(v,v,W))
    for d in sorted(decls): L.append('(declare-const %s Int)'%d)
    return L
def aB(i):
    return ' '.join('(* %d %s)'%(W**int(y[-1]), pv) for (x,y),pv in prods.items() if amap[x]==i)
def ev(vs): return '(+ %s)'%' '.join('(* %d %s)'%(W**i,v) for i,v in enumerate(vs))
# accumulators after each round (5 limbs) and q's
acc=[['x39','x41','x43','x45','x46'],['x91','x93','x95','x97','x99'],['x144','x146','x148','x150','x152'],['x197','x199','x201','x203','x205']]
qs=['x20','x72','x125','x178']
def idx_of(var):
    for k,a in enumerate(asserts):
        if re.search(r'\b%s\b'%var, a): last=k
    # first defining assert index
    for k,a in enumerate(asserts):
        if re.search(r'\b%s\b'%var, a): return k
def lastdef(vars_):
    return max(idx_of(v) for v in vars_)
def run(name, L):
    open(name,'w').write('\n'.join(L)+'\n(check-sat)\n')
    res={}
    for s in ['z3','z3-new','cvc5']:
        t=time.time()
        try: out=subprocess.run([s,name],capture_output=True,text=True,timeout=60).stdout.strip().split('\n')[0]
        except subprocess.TimeoutExpired: out='timeout'
        res[s]=(out,round(time.time()-t,2))
    print(name,res)
prev_end=0
lem_prev=None
for r in range(4):
    end=lastdef(acc[r])+1
    while not re.search(r"\b%s\b"%acc[r][-1], asserts[end-1]) or asserts[end-1].startswith("(and"): end+=1
    L=hdr()
    for a in asserts[prev_end:end]: L.append('(assert %s)'%a)
    # P ranges always included (they're in asserts where first used) -- include all P range asserts
    for a in asserts:
        if a.startswith('(and (<= 0 P'): L.append('(assert %s)'%a)
    if lem_prev:
        L.append('(assert %s)'%lem_prev)
        L.append('(assert (and %s))'%' '.join('(<= 0 %s) (< %s %d)'%(v,v,W) for v in acc[r-1]+qs[:r]))
    # lemma r: ev(acc_r)*W^(r+1) = sum_{i<=r} a_i B W^i + (sum q_i W^i) P
    lhs='(* %d %s)'%(W**(r+1), ev(acc[r]))
    rhs='(+ %s (* %d %s))'%(' '.join('(* %d (+ %s))'%(W**i,aB(i)) for i in range(r+1)), P, ev(qs[:r+1]))
    lem='(= %s %s)'%(lhs,rhs)
    run('mulround%d.smt2'%r, L+['(assert (not %s))'%lem])
    # also bound lemma: acc top limb small
    prev_end=end; lem_prev=lem
# final step
end3=prev_end
L=hdr()
for a in asserts[end3:]: L.append('(assert %s)'%a)
for a in asserts:
    if a.startswith('(and (<= 0 P'): L.append('(assert %s)'%a)
L.append('(assert %s)'%lem_prev)
L.append('(assert (and %s))'%' '.join('(<= 0 %s) (< %s %d)'%(v,v,W) for v in acc[3]+qs))
AB='(+ %s)'%' '.join('(* %d (+ %s))'%(W**i,aB(i)) for i in range(4))
L.append('(assert (<= %s %d))'%(AB,(P-1)**2))
outeval=ev([outs['out%d'%i] for i in range(4)])
g1='(< %s %d)'%(outeval,P)
g2='(= (* %d %s) (- (+ %s (* %d %s)) (* %d (ite (= x215 0) 1 0))))'%(R,outeval,AB,P,ev(qs),R*P)
run('mulfinal_lt.smt2', L+['(assert (not %s))'%g1])
run('mulfinal_eq.smt2', L+['(assert (not %s))'%g2])
