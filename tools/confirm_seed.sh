#!/bin/bash
# tools/confirm_seed.sh <PROP> <k> : confirm a sub-agent's seeded change in its scratch worktree, store it under
# /verif/seeded/<PROP>-<k>/, then run ./check <PROP> against /repo with the patch applied (and undo it).
set -u
ID=$1; K=$2
WT=/tmp/wt_$ID; SD=/tmp/seed_$ID/$K; OUT=/verif/seeded/$ID-$K
export GOFLAGS=-mod=mod GOPROXY=off GOSUMDB=off GOTOOLCHAIN=local
[ -f $SD/patch.diff ] || { echo "no patch $SD"; exit 2; }
place=$(grep -m1 -o 'place in: *[^ ]*' $SD/demo_test.go | sed 's/place in: *//'); place=${place:-.}
DF=$(jq -r '.demo_flags // ""' $SD/meta.json 2>/dev/null)   # e.g. "-tags purego" for changes that only exist in one build
git -C $WT checkout -q -- . ; git -C $WT clean -fdq; find $WT -name "verif_*.go" -delete
log=""
run() { log="$log\n$ $*"; }
# demo on clean tree must pass
cp $SD/demo_test.go $WT/$place/zz_seed_demo_test.go
(cd $WT/$place && timeout 600 go test $DF -vet=off -count=1 -run 'Seed|Demo' . >/tmp/seed_clean_$ID.log 2>&1); clean_rc=$?
rm -f $WT/$place/zz_seed_demo_test.go
# apply
git -C $WT apply $SD/patch.diff || { echo "patch does not apply"; exit 2; }
(cd $WT && timeout 900 go build ./... >/tmp/seed_build_$ID.log 2>&1); build_rc=$?
(cd $WT && timeout 900 go test -vet=off -count=1 ./... >/tmp/seed_suite_$ID.log 2>&1); suite_rc=$?
cp $SD/demo_test.go $WT/$place/zz_seed_demo_test.go
(cd $WT/$place && timeout 600 go test $DF -vet=off -count=1 -run 'Seed|Demo' . >/tmp/seed_patched_$ID.log 2>&1); patched_rc=$?
rm -f $WT/$place/zz_seed_demo_test.go
git -C $WT checkout -q -- . ; git -C $WT clean -fdq; find $WT -name "verif_*.go" -delete
echo "seed $ID-$K: demo_on_clean=$clean_rc build=$build_rc suite=$suite_rc demo_on_patched=$patched_rc (want 0 0 0 nonzero)"
if [ $clean_rc -ne 0 ] || [ $build_rc -ne 0 ] || [ $suite_rc -ne 0 ] || [ $patched_rc -eq 0 ]; then echo "NOT CONFIRMED"; tail -5 /tmp/seed_clean_$ID.log /tmp/seed_suite_$ID.log /tmp/seed_patched_$ID.log; exit 1; fi
mkdir -p $OUT; cp $SD/patch.diff $OUT/patch.diff; cp $SD/demo_test.go $OUT/demo_test.go
# run our check against /repo's committed state with the patch applied.  By default this uses a scratch copy
# (VERIF_REPO), so that work in progress in /repo is not disturbed; with INPLACE=1 the patch is applied to /repo
# itself (git apply ... ; git checkout -- .), which requires a clean /repo.
if [ "${INPLACE:-0}" = 1 ]; then
  if [ -n "$(git -C /repo status --porcelain)" ]; then echo "/repo has uncommitted changes: commit them first"; exit 2; fi
  git -C /repo apply $SD/patch.diff || { echo "patch does not apply to /repo"; exit 2; }
  res=$(cd /verif && VERIF_EVIDENCE_DIR=/tmp/seed_ev_$ID timeout 1500 ./check $ID quick 2>&1); check_rc=$?
  git -C /repo checkout -q -- .
else
  SC=$(mktemp -d /tmp/seedrepo-XXXXXX); git -C /repo archive HEAD | tar -x -C $SC
  (cd $SC && git apply --unsafe-paths $SD/patch.diff 2>/dev/null || patch -p1 -s < $SD/patch.diff) || { echo "patch does not apply to /repo HEAD"; rm -rf $SC; exit 2; }
  res=$(cd /verif && VERIF_REPO=$SC VERIF_EVIDENCE_DIR=$SC/.ev VERIF_OUT_DIR=$SC/.out VERIF_REPLAY_DIR=$SC/.replay timeout 1500 ./check $ID quick 2>&1); check_rc=$?
  rm -rf $SC
fi
nviol=$(echo "$res" | grep -c '^VIOLATION')
first=$(echo "$res" | grep -m3 '^VIOLATION' | sed 's/replay=[^ ]* //')
python3 - "$SD/meta.json" "$OUT/meta.json" "$ID" "$check_rc" "$nviol" "$first" <<'PY'
import json,sys
src,dst,pid,rc,nv,first=sys.argv[1:7]
try: m=json.load(open(src))
except Exception: m={}
m.update({"property":pid,"confirmed_by":"tools/confirm_seed.sh (scratch worktree): demo passes on clean tree, build ok, full suite passes with patch, demo fails with patch",
 "ran":["go build ./...","go test -vet=off -count=1 ./... (patched)","go test -run 'Seed|Demo' (clean, patched)","./check %s quick on /repo HEAD + patch.diff (scratch copy via VERIF_REPO, or in place with INPLACE=1)"%pid],
 "check_exit":int(rc),"check_violations":int(nv),"check_first_violations":first.split('\n') if first else [],"detected":int(rc)==1})
json.dump(m,open(dst,'w'),indent=1)
PY
echo "check $ID on patched /repo: exit=$check_rc violations=$nviol"; echo "$first"
