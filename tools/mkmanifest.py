#!/usr/bin/env python3
"""Regenerate /verif/MANIFEST.json from the table below (claimed properties) and properties.jsonl."""
import json, subprocess
props=[json.loads(l) for l in open('/verif/properties.jsonl')]
TECH="contract-based deductive verification: WP/symbolic execution over go/ssa of the real code, obligations discharged by z3/cvc5"
COMMON="Assumed and listed in the evidence: engine-level models of math/bits, encoding/binary, crypto/subtle; bridge lemmas of modular arithmetic (fm_*), number-theoretic lemmas (P, N prime), group-law lemmas cited from RCB15 / SEC 1; solvers; this engine's SSA semantics."
claimed={
 'C01': ("Every function of internal/field, the fiat field package and internal/helpers carries a contract (exact value in Z/P, representation invariant eval<P restored, frame, no panic) and every obligation generated from the current source is discharged for all inputs and all alias partitions; Montgomery routines via per-round cut invariants; Invert/pow3mod4 by exponent bookkeeping; SetWideBytes for each of the 33 lengths.", COMMON),
 'C02': ("Same as C01 for scalars mod N: fiat scalar package, every Scalar method incl. the Invert chain (exponent N-2 literally), IsGreaterThanHalfN, canonical decode leaving the receiver untouched on error.", "Sum/Product over variadic slices are not under contract yet (listed in evidence.coverage.not_covered). "+COMMON),
 'C03': ("addComplete/addMixed/doubleComplete are proved equal to the Renes-Costello-Batina closed forms as polynomials over Z/P under every alias partition; Add/Double/Subtract/Negate/Conditional*/Equal/IsIdentity/IsYOdd/rescale/Set and constructors are proved against the abstract group (padd/pneg/O) with the type invariant isValid => on-curve re-established; panics exactly on uninitialised operands.", "The identification of the closed forms with the group law (completeness) and the projective representation axioms are cited lemmas (spec/curve.spec), not re-proved. "+COMMON),
 'C12': ("The BIP-66 predicate is proved equivalent to the declarative BIP-66 grammar for every byte string (all index computations proved in range); the compact parsers/builders are exact; ParseASN1Signature and ParseASN1PublicKey are proved to accept exactly the strict-DER grammars (spec/wire.spec, engine derspec.go) with 1 <= r,s < N resp. ecPublicKey/secp256k1 OIDs, zero unused bits and a valid non-identity SEC 1 key; the cryptobyte and encoding/asn1 routines they use (ReadASN1, readASN1Bytes, ReadASN1BitString, Empty, RightAlign) are themselves verified against the dependency source; no repo-side index/slice/conversion can panic.", "OBJECT IDENTIFIER decoding/comparison is an assumed contract; the DER builders (BuildASN1Signature, buildASN1PublicKey) and hence the build/parse round-trip identities are not under contract (evidence.coverage.not_covered). One genuine defect was found and fixed (known_findings.json). "+COMMON),
 'C04': ("ScalarMult and scalarMultVartimeGLV are proved to return smul(val(s), abs(p)) for every scalar, point and receiver aliasing: mulGFlooredDiv is exact (schoolbook product + rounding), splitGLV satisfies k = k1 + k2*lambda with both halves in (-2^128, 2^128) for every k (LIA lemma), table construction, constant-time and variable-time table selection, and the 16-iteration ladders (unrolled, with cut lemmas) are all discharged.", "The GLV endomorphism lemma (beta, lambda) and the RCB group-law lemmas are cited, not re-proved; the assembly lookup is covered by C19 (this check uses the purego build). "+COMMON),
 'C06': ("SEC 1 decoders accept exactly (length, prefix, canonical coordinates, curve equation / square test, parity) and leave the receiver unchanged on every error path; encoders produce prefix and big-endian affine coordinates of the abstract point; constructors from coordinates apply the same validation.", "RecoverPoint and the encode/decode round-trip lemmas are being added. Square test via Euler criterion lemma (P prime). "+COMMON),
}
checks=[]
for pid,(text,note) in claimed.items():
    checks.append({"property_id":pid,"quick_cmd":f"./check {pid} quick","thorough_cmd":f"./check {pid} thorough","evidence_file":f"/verif/evidence/{pid}.json","replay_cmd_template":"cat {path}","engine":"vcgo",
      "level_claimed":{"category":"proof","text":text,"design_ref":"DESIGN.md §5 "+pid},"level_note":note,"technique":TECH})
na=[{"property_id":p['id'],"reason":"contracts for this property are still being brought under the verifier in this session; no check is registered until its obligations discharge robustly"} for p in props if p['id'] not in claimed]
commits=subprocess.run(['git','-C','/repo','log','--format=%H %s'],capture_output=True,text=True).stdout.strip().split('\n')
hook=[c.split()[0] for c in commits if ' verif:' in c]
m={"version":1,
   "setup_cmd":"cd /verif/vcgo && GOFLAGS=-mod=mod GOPROXY=off GOSUMDB=off GOTOOLCHAIN=local go build -o /verif/bin/vcgo .",
   "hooks":{"guard":"verif","enable":"go/packages loads /repo with -tags=verif,purego (and -tags=verif for the assembly build); the only hooks are comment-only verif_contracts.go files",
            "baseline_off_cmd":"cd /repo && GOFLAGS=-mod=mod GOPROXY=off GOSUMDB=off go test -vet=off -count=1 ./... && cd internal/asm && GOFLAGS=-mod=mod GOPROXY=off GOSUMDB=off go test -vet=off -count=1 ./...",
            "source_commits":hook,"add_only":True},
   "engines":[{"name":"vcgo","path":"/verif/vcgo","serves_properties":list(claimed),"kind_free_text":"home-made deductive verifier for Go: contracts as //@ comments, VC generation over go/ssa, SMT back ends raced"}],
   "checks":checks,"not_applicable":na,
   "notes":"Work in progress: properties move from not_applicable to checks as their contracts discharge."}
json.dump(m,open('/verif/MANIFEST.json','w'),indent=1)
print("claimed:",list(claimed),"hooks:",len(hook))
