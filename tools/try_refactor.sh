#!/bin/bash
# try_refactor.sh <diff> <prop> : apply a behaviour-preserving change to a scratch copy of /repo HEAD; the check must exit 0
D="$1"; P="$2"; HERE="$(cd "$(dirname "$0")/.." && pwd)"
scratch=$(mktemp -d /tmp/vcgo-rf-XXXXXX)
git -C /repo archive HEAD | tar -x -C "$scratch"
if ! (cd "$scratch" && patch -p1 -s < "$D"); then echo "PATCH-FAILED $D"; rm -rf "$scratch"; exit 2; fi
if ! (cd "$scratch" && GOFLAGS=-mod=mod GOPROXY=off GOSUMDB=off go build ./... >/dev/null 2>&1); then echo "DOES-NOT-COMPILE $D"; rm -rf "$scratch"; exit 2; fi
out=$(VERIF_REPO="$scratch" VERIF_EVIDENCE_DIR="$scratch/.ev" VERIF_OUT_DIR="$scratch/.out" VERIF_REPLAY_DIR="$scratch/.replay" "$HERE/check" "$P" quick 2>&1); rc=$?
echo "$(basename $D) $P exit=$rc"
if [ $rc != 0 ]; then echo "$out" | grep -v "^  ok" | grep "FAIL\|ENGINE\|VIOLATION" | cut -c1-300 | head -8; fi
rm -rf "$scratch"
exit $rc
