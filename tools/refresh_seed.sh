#!/bin/bash
# tools/refresh_seed.sh <ID-k> : re-run ./check <ID> quick on /repo HEAD + seeded/<ID-k>/patch.diff (scratch copy) with the current
# engine and bring the check_* fields of meta.json up to date (the confirmation of the change itself is not repeated).
set -u
SK=$1; ID=${SK%%-*}; SD=/verif/seeded/$SK
export GOFLAGS=-mod=mod GOPROXY=off GOSUMDB=off GOTOOLCHAIN=local
SC=$(mktemp -d /tmp/seedrepo-XXXXXX); git -C /repo archive HEAD | tar -x -C $SC
(cd $SC && git apply --unsafe-paths $SD/patch.diff 2>/dev/null || patch -p1 -s < $SD/patch.diff) || { echo "patch does not apply"; rm -rf $SC; exit 2; }
res=$(cd /verif && VERIF_REPO=$SC VERIF_EVIDENCE_DIR=$SC/.ev VERIF_OUT_DIR=$SC/.out VERIF_REPLAY_DIR=$SC/.replay timeout 1500 ./check $ID quick 2>&1); rc=$?
rm -rf $SC
nviol=$(echo "$res" | grep -c '^VIOLATION')
first=$(echo "$res" | grep -m4 '^VIOLATION' | sed 's/replay=[^ ]* //')
python3 - "$SD/meta.json" "$rc" "$nviol" "$first" <<'PY'
import json,sys
p,rc,nv,first=sys.argv[1:5]
try: m=json.load(open(p))
except Exception: m={}
m.update({"check_exit":int(rc),"check_violations":int(nv),"check_first_violations":first.split('\n') if first else [],"detected":int(rc)==1})
json.dump(m,open(p,'w'),indent=1)
PY
echo "$SK exit=$rc violations=$nviol"; echo "$first" | head -3
