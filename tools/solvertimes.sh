#!/bin/bash
# solvertimes.sh <dir> <pattern> [timeout]: run the three solvers on every matching SMT file, print status and time
D="$1"; P="$2"; T="${3:-20}"
for f in $(ls "$D" | grep -- "$P" | sort -V); do
  line="$f:"
  for s in "z3-new -T:$T" "z3 -T:$T" "cvc5 --tlimit=${T}000"; do
    st=$(date +%s.%N); r=$($s "$D/$f" 2>&1 | head -1 | cut -c1-12); en=$(date +%s.%N)
    line="$line  [${s%% *} $r $(printf %.1f $(echo "$en-$st"|bc))s]"
  done
  echo "$line"
done
