#!/bin/bash
# tools/try_seed.sh <seed dir under /verif/seeded or /tmp/seed_X/k> <PROP> [more props...]: run ./check PROP on /repo HEAD + patch (scratch copy)
SD=$1; shift
export GOFLAGS=-mod=mod GOPROXY=off GOSUMDB=off GOTOOLCHAIN=local
for ID in "$@"; do
SC=$(mktemp -d /tmp/seedrepo-XXXXXX); git -C /repo archive HEAD | tar -x -C $SC
(cd $SC && git apply --unsafe-paths $SD/patch.diff 2>/dev/null || patch -p1 -s < $SD/patch.diff) || { echo "patch does not apply"; rm -rf $SC; exit 2; }
res=$(cd /verif && VERIF_REPO=$SC VERIF_EVIDENCE_DIR=$SC/.ev VERIF_OUT_DIR=$SC/.out VERIF_REPLAY_DIR=$SC/.replay timeout 1500 ./check $ID quick 2>&1); rc=$?
rm -rf $SC
echo "$(basename $(dirname $SD/x)) $ID exit=$rc violations=$(echo "$res" | grep -c '^VIOLATION')"; echo "$res" | grep -m4 '^VIOLATION' | sed 's/replay=[^ ]* //'
done
