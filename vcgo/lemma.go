package main

// Lemmas: pure statements over spec sorts.  A lemma is either proved (SMT, possibly with
// nonlinear integer arithmetic; ground evaluation; Lean) or listed as an assumption.
// `using NAME(args)` in a contract adds the instance (requires ==> ensures) as a hypothesis.

import (
	"fmt"
	"go/ast"
	"strings"

	"golang.org/x/tools/go/ssa"
)

func (e *Engine) instantiateLemma(env *SpecEnv, u *Clause) []*Term {
	call, ok := u.Expr.(*ast.CallExpr)
	if !ok {
		e.fail("using: expected lemma application, got %s", u.Text)
	}
	name := call.Fun.(*ast.Ident).Name
	lm, ok := e.db.Lemmas[name]
	if !ok {
		e.fail("using: unknown lemma %s", name)
	}
	if len(call.Args) != len(lm.Params) {
		e.fail("using %s: expected %d arguments", name, len(lm.Params))
	}
	if e.usedLemmas == nil {
		e.usedLemmas = map[string]bool{}
	}
	e.usedLemmas[name] = true
	lenv := &SpecEnv{e: e, st: env.st, vars: map[string]Value{}, fnName: "lemma " + name, lemma: true}
	for i, p := range lm.Params {
		t := env.term(call.Args[i])
		if t.Sort != p.Sort {
			if t.Sort == SInt && modulusOf(p.Sort) != nil {
				t = mkToRing(p.Sort, t)
			} else {
				e.fail("using %s: argument %s has sort %s, want %s", name, p.Name, t.Sort, p.Sort)
			}
		}
		lenv.vars[p.Name] = t
	}
	var reqs, enss []*Term
	for _, r := range lm.Requires {
		reqs = append(reqs, lenv.boolTerm(r.Expr))
	}
	for _, en := range lm.Ensures {
		enss = append(enss, lenv.boolTerm(en.Expr))
	}
	// when the hypotheses of the lemma are already known, its conclusions are assumed one by one
	// (which lets equalities act as rewrite rules); otherwise the instance is an implication.
	req := env.st.sub(mkAnd(reqs...))
	known := req.IsConst() && req.Val.Sign() != 0
	if !known {
		known = true
		var cs []*Term
		if req.Op == "and" {
			cs = req.Args
		} else {
			cs = []*Term{req}
		}
		for _, c := range cs {
			if !env.st.hypKeys[c.Key()] {
				known = false
			}
		}
	}
	if known {
		return enss
	}
	return []*Term{mkImplies(req, mkAnd(enss...))}
}

// lemmaObligations generates the proof obligations of every lemma with an SMT proof method.
func (e *Engine) lemmaObligation(lm *Lemma) *Obligation {
	st := &State{mem: &Memory{cells: map[string]Value{}}, hypKeys: map[string]bool{}, subst: map[string]*Term{}, names: map[string]Value{}, weak: map[string]bool{}, visits: map[*ssa.BasicBlock]int{}, binds: map[string]int{}, lastBind: map[string]ssa.Value{}}
	env := &SpecEnv{e: e, st: st, vars: map[string]Value{}, fnName: "lemma " + lm.Name, lemma: true}
	for _, p := range lm.Params {
		env.vars[p.Name] = mkVar("L."+p.Name, p.Sort)
	}
	var hyps, enss []*Term
	for _, r := range lm.Requires {
		hyps = append(hyps, env.boolTerm(r.Expr))
	}
	for _, en := range lm.Ensures {
		enss = append(enss, env.boolTerm(en.Expr))
	}
	o := &Obligation{Name: "lemma." + lm.Name, Kind: "lemma", Func: "lemma." + lm.Name, Hyps: hyps, Goal: mkAnd(enss...), Text: lm.Source}
	method := strings.Fields(lm.Proof)
	if len(method) > 0 && method[0] == "nia" {
		o.NIA = true
	}
	if o.Goal.IsConst() && o.Goal.Val.Sign() != 0 {
		o.Result = &SolveResult{Status: "unsat", Solver: "normal-form", Backend: "ring-nf"}
	}
	return o
}

func lemmaIsAssumed(lm *Lemma) bool {
	return !(lm.Proof == "smt" || lm.Proof == "nia" || lm.Proof == "ring")
}

var _ = fmt.Sprint
