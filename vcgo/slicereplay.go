package main

// Replay of safety violations (index / slice bounds / conversion) of functions whose parameters are byte slices of
// symbolic length and scalars -- the wire-format parsers.  The solver's model of such an obligation is exact (byte
// logic, no abstraction), so the input it describes makes the real function panic.  The slice contents are read off
// a second run of the failed query with one integer constant per byte position.

import (
	"context"
	"encoding/json"
	"fmt"
	"go/types"
	"math/big"
	"os"
	"os/exec"
	"path/filepath"
	"regexp"
	"strings"

	"golang.org/x/tools/go/ssa"
)

var safetyObligationRe = regexp.MustCompile(`^(.*)#safety:([^/]*)(?:/(.*?))?(?:/path=\d+)?$`)

const sliceReplayMaxLen = 256

func sliceSafetyReplay(cfg runConfig, res *runResult, v *violation) *replayResult {
	m := safetyObligationRe.FindStringSubmatch(v.Obligation)
	if m == nil {
		return nil
	}
	rr := &replayResult{}
	logf := func(f string, a ...interface{}) { rr.Log = append(rr.Log, fmt.Sprintf(f, a...)) }
	if v.Status != "sat" || v.SMTFile == "" {
		logf("the solver gave no model (status %s)", v.Status)
		return rr
	}
	e := res.engine
	var fn *ssa.Function
	var c *Contract
	for _, k := range res.funcs {
		f := res.fnsByKey[k]
		if f == nil {
			continue
		}
		pkg, rel := e.funcKey(f)
		if pkg[strings.LastIndex(pkg, "/")+1:]+"."+rel == m[1] {
			fn, c = f, e.db.Contracts[k]
		}
	}
	if fn == nil || c == nil || fn.Pkg == nil {
		logf("function %s not found", m[1])
		return rr
	}
	if len(c.Panics) > 0 {
		logf("the contract allows panics under its `panics` clauses; safety replay is for panic-free contracts")
		return rr
	}
	if fn.Signature.Recv() != nil {
		logf("methods are outside the byte-slice replay")
		return rr
	}
	// parameters: []byte or basic scalars only
	type par struct {
		name    string
		isSlice bool
		typ     types.Type
	}
	var ps []par
	for _, p := range fn.Params {
		switch u := underlying(p.Type()).(type) {
		case *types.Slice:
			if b, ok := underlying(u.Elem()).(*types.Basic); !ok || b.Kind() != types.Uint8 {
				logf("parameter %s is not a byte slice", p.Name())
				return rr
			}
			ps = append(ps, par{p.Name(), true, p.Type()})
		case *types.Basic:
			if u.Info()&(types.IsInteger|types.IsBoolean) == 0 {
				logf("parameter %s has type %s", p.Name(), p.Type())
				return rr
			}
			ps = append(ps, par{p.Name(), false, p.Type()})
		default:
			logf("parameter %s has type %s: outside the byte-slice replay", p.Name(), p.Type())
			return rr
		}
	}
	// second solver run: one constant per byte position of every slice parameter
	txt, err := os.ReadFile(v.SMTFile)
	if err != nil {
		logf("cannot read %s", v.SMTFile)
		return rr
	}
	src := string(txt)
	cut := strings.LastIndex(src, "(check-sat)")
	if cut < 0 {
		logf("no (check-sat) in the query")
		return rr
	}
	var extra strings.Builder
	for _, p := range ps {
		if !p.isSlice || !strings.Contains(src, "(declare-const |"+p.name+"[]| ") {
			continue
		}
		for i := 0; i < sliceReplayMaxLen; i++ {
			fmt.Fprintf(&extra, "(declare-const |rp!%s!%d| Int)\n(assert (= |rp!%s!%d| (select |%s[]| %d)))\n", p.name, i, p.name, i, p.name, i)
		}
	}
	tmp, err := os.MkdirTemp("", "vcgo-slicereplay-")
	if err != nil {
		logf("harness: %v", err)
		return rr
	}
	defer os.RemoveAll(tmp)
	q2 := filepath.Join(tmp, "q.smt2")
	_ = os.WriteFile(q2, []byte(src[:cut]+extra.String()+src[cut:]), 0o644)
	var model map[string]string
	for _, sp := range solvers {
		r := runOne(context.Background(), sp, q2, 20)
		if r.Status == "sat" {
			model = parseModel(r.Output)
			break
		}
	}
	if model == nil {
		logf("the second solver run (byte positions made explicit) gave no model")
		return rr
	}
	// test source
	var body strings.Builder
	var desc []string
	var args []string
	for i, p := range ps {
		an := fmt.Sprintf("a%d", i)
		args = append(args, an)
		if p.isSlice {
			ln, ok := new(big.Int).SetString(model["len("+p.name+")"], 10)
			if !ok {
				ln = big.NewInt(0)
			}
			if ln.Sign() < 0 || ln.Cmp(big.NewInt(sliceReplayMaxLen)) > 0 {
				logf("the model's len(%s) = %s is outside the replay's range 0..%d", p.name, ln, sliceReplayMaxLen)
				return rr
			}
			n := int(ln.Int64())
			var bs []string
			for k := 0; k < n; k++ {
				b, ok := new(big.Int).SetString(model[fmt.Sprintf("rp!%s!%d", p.name, k)], 10)
				if !ok {
					b = big.NewInt(0)
				}
				bs = append(bs, fmt.Sprintf("0x%02x", new(big.Int).And(b, big.NewInt(255)).Int64()))
			}
			fmt.Fprintf(&body, "\t%s := []byte{%s}\n", an, strings.Join(bs, ", "))
			desc = append(desc, fmt.Sprintf("%s = [%d bytes] %s", p.name, n, strings.Join(bs, " ")))
		} else {
			val, ok := new(big.Int).SetString(model[p.name], 10)
			if !ok {
				val = big.NewInt(0)
			}
			b := underlying(p.typ).(*types.Basic)
			if b.Info()&types.IsBoolean != 0 {
				fmt.Fprintf(&body, "\t%s := %v\n", an, model[p.name] == "true")
			} else {
				fmt.Fprintf(&body, "\t%s := %s(%s)\n", an, types.TypeString(p.typ, func(*types.Package) string { return "" }), val.String())
			}
			desc = append(desc, fmt.Sprintf("%s = %s", p.name, val))
		}
	}
	rr.Input = strings.Join(desc, "; ")
	pkgPath := fn.Pkg.Pkg.Path()
	rel := strings.TrimPrefix(strings.TrimPrefix(pkgPath, e.modPath), "/")
	testSrc := fmt.Sprintf(`package %s

import (
	"fmt"
	"os"
	"testing"
)

func TestVerifSliceReplay(t *testing.T) {
	out, err := os.Create(os.Getenv("VERIF_REPLAY_OUT"))
	if err != nil {
		t.Fatal(err)
	}
	defer out.Close()
	defer func() {
		if r := recover(); r != nil {
			fmt.Fprintf(out, "PANIC %%v\n", r)
		}
	}()
%s	%s(%s)
	fmt.Fprintln(out, "RETURNED")
}
`, fn.Pkg.Pkg.Name(), body.String(), fn.Name(), strings.Join(args, ", "))
	testFile := filepath.Join(tmp, "zz_verif_slicereplay_test.go")
	_ = os.WriteFile(testFile, []byte(testSrc), 0o644)
	ov, _ := json.Marshal(map[string]interface{}{"Replace": map[string]string{filepath.Join(cfg.repo, rel, "zz_verif_slicereplay_test.go"): testFile}})
	ovFile := filepath.Join(tmp, "ov.json")
	_ = os.WriteFile(ovFile, ov, 0o644)
	outFile := filepath.Join(tmp, "out.txt")
	cmd := exec.Command("go", "test", "-tags", "purego", "-overlay", ovFile, "-vet=off", "-count=1", "-timeout", "60s", "-run", "^TestVerifSliceReplay$", ".")
	cmd.Dir = filepath.Join(cfg.repo, rel)
	cmd.Env = append(os.Environ(), "GOFLAGS=-mod=mod", "GOPROXY=off", "GOSUMDB=off", "GOTOOLCHAIN=local", "VERIF_REPLAY_OUT="+outFile)
	if b, err := cmd.CombinedOutput(); err != nil {
		logf("replay test did not run: %v: %s", err, trunc(string(b), 400))
		return rr
	}
	rr.Attempted = true
	data, _ := os.ReadFile(outFile)
	rr.Expected = "no run-time panic (" + v.Statement + ")"
	switch {
	case strings.Contains(string(data), "PANIC "):
		rr.Failing = true
		rr.Observed = strings.TrimSpace(string(data))
		logf("the real function panics on the model's input")
	case strings.Contains(string(data), "RETURNED"):
		rr.Observed = "returned normally"
		logf("the real function does not panic on the model's input: not a failing input")
	default:
		logf("the replay test produced no result")
	}
	return rr
}

// explicitBytesModel re-runs a failed query with one integer constant per byte position of the named array
// variables (|rp!<array>!<i>|) and returns the model, or nil.
func explicitBytesModel(smtFile string, arrays []string) map[string]string {
	txt, err := os.ReadFile(smtFile)
	if err != nil {
		return nil
	}
	src := string(txt)
	cut := strings.LastIndex(src, "(check-sat)")
	if cut < 0 {
		return nil
	}
	var extra strings.Builder
	for _, a := range arrays {
		if !strings.Contains(src, "(declare-const |"+a+"| ") {
			continue
		}
		for i := 0; i < sliceReplayMaxLen; i++ {
			fmt.Fprintf(&extra, "(declare-const |rp!%s!%d| Int)\n(assert (= |rp!%s!%d| (select |%s| %d)))\n", a, i, a, i, a, i)
		}
	}
	tmp, err := os.MkdirTemp("", "vcgo-bytesmodel-")
	if err != nil {
		return nil
	}
	defer os.RemoveAll(tmp)
	q2 := filepath.Join(tmp, "q.smt2")
	_ = os.WriteFile(q2, []byte(src[:cut]+extra.String()+src[cut:]), 0o644)
	for _, sp := range solvers {
		r := runOne(context.Background(), sp, q2, 20)
		if r.Status == "sat" {
			return parseModel(r.Output)
		}
	}
	return nil
}
