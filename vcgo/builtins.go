package main

// Go builtins and engine-level models ("intrinsics") of standard-library functions.
// Every intrinsic is an *assumed* contract on a dependency; the list is reported in the evidence.

import (
	"encoding/hex"
	"fmt"
	"go/types"
	"math/big"
	"strings"

	"golang.org/x/tools/go/ssa"
)

type intrinsicFn func(e *Engine, st *State, fr *Frame, args []Value, in *ssa.Call) Value

var intrinsics = map[string]intrinsicFn{}

var intrinsicDoc = map[string]string{
	"bytes.Repeat":                      "returns a fresh slice holding count copies of b (count >= 0)",
	"bytes.Clone":                       "returns a fresh copy with equal contents",
	"bytes.Equal":                       "true iff same length and contents",
	"crypto/subtle.ConstantTimeCompare": "1 iff same length and contents",
	"(crypto.Hash).Size":                "digest size table of the registered hash identifiers 1..19; panics otherwise (obligation at the call site)",
	"(*golang.org/x/crypto/cryptobyte.String).ReadASN1ObjectIdentifier": "true iff next TLV is a DER OBJECT IDENTIFIER with well-formed base-128 content (oidwf, uninterpreted); advances; value abstract",
	"(encoding/asn1.ObjectIdentifier).Equal":                            "against a constant OID: true iff the parsed content octets equal the constant's canonical DER content (bijection of X.690 8.19 encodings on well-formed content)",
	"math/bits.Add64":                                                   "sum + 2^64*carryOut = x + y + carry, carryOut in {0,1} (requires carry in {0,1})",
	"math/bits.Sub64":                                                   "diff - 2^64*borrowOut = x - y - borrow, borrowOut in {0,1} (requires borrow in {0,1})",
	"math/bits.Mul64":                                                   "hi*2^64 + lo = x*y",
	"(encoding/binary.bigEndian).Uint64":                                "big-endian value of b[0:8]; panics if len(b) < 8",
	"(encoding/binary.bigEndian).PutUint64":                             "writes the big-endian bytes of v to b[0:8]; panics if len(b) < 8",
	"crypto/subtle.ConstantTimeSelect":                                  "v==1 ? x : y for v in {0,1}",
	"crypto/subtle.ConstantTimeByteEq":                                  "1 iff x == y",
	"foreign interface method":                                          "a method of an interface value whose dynamic type is not a type of this module reads and writes no memory of this module (its objects are unexported or passed by value); its scalar result is arbitrary",
	"base-256 digits":                                                   "positional notation is unique: if the big-endian value of n bytes b equals x then b[i] is the i-th base-256 digit of x, written be(n,x)[i]; be(n,x) has value x",
	"strings.ToValidUTF8":                                               "the result equals the argument iff the argument is valid UTF-8 (validutf8, uninterpreted)",
	"errors.New":                                                        "returns a fresh non-nil error",
	"crypto/rand.Reader":                                                "the package variable is a non-nil reader after the standard library's initialisation and nobody reassigns it",
	"fmt.Errorf":                                                        "returns a fresh non-nil error",
}

func (e *Engine) usedIntrinsic(name string) {
	if e.usedIntr == nil {
		e.usedIntr = map[string]bool{}
	}
	e.usedIntr[name] = true
}

func tuple(vs ...Value) *TupleVal { return &TupleVal{elems: vs} }

func init() {
	intrinsics["math/bits.Add64"] = func(e *Engine, st *State, fr *Frame, args []Value, in *ssa.Call) Value {
		e.usedIntrinsic("math/bits.Add64")
		x, y, c := args[0].(*Term), args[1].(*Term), args[2].(*Term)
		e.addObligation(st, fr, "safety", "bits.Add64.carry", mkLe(c, mkInt64(1)), "carry in {0,1}")
		total := mkAdd(mkAdd(x, y), c)
		if total.IsConst() {
			return tuple(mkInt(new(big.Int).Mod(total.Val, bigW)), mkInt(new(big.Int).Div(total.Val, bigW)))
		}
		if _, hi := rangeOf(total); hi != nil && hi.Cmp(bigW) < 0 {
			return tuple(total, mkInt64(0))
		}
		n := e.freshName("add64")
		sum := mkIntVarR(n+".sum", big0, maxU64)
		co := mkIntVarR(n+".c", big0, big1)
		st.assume(mkEq(mkAdd(sum, mkScale(co, bigW)), total))
		return tuple(sum, co)
	}
	intrinsics["math/bits.Sub64"] = func(e *Engine, st *State, fr *Frame, args []Value, in *ssa.Call) Value {
		e.usedIntrinsic("math/bits.Sub64")
		x, y, c := args[0].(*Term), args[1].(*Term), args[2].(*Term)
		e.addObligation(st, fr, "safety", "bits.Sub64.borrow", mkLe(c, mkInt64(1)), "borrow in {0,1}")
		total := mkSub(mkSub(x, y), c)
		if total.IsConst() {
			b := int64(0)
			if total.Val.Sign() < 0 {
				b = 1
			}
			return tuple(mkInt(new(big.Int).Mod(total.Val, bigW)), mkInt64(b))
		}
		if lo, _ := rangeOf(total); lo != nil && lo.Sign() >= 0 {
			return tuple(total, mkInt64(0))
		}
		n := e.freshName("sub64")
		diff := mkIntVarR(n+".diff", big0, maxU64)
		bo := mkIntVarR(n+".b", big0, big1)
		st.assume(mkEq(mkSub(diff, mkScale(bo, bigW)), total))
		return tuple(diff, bo)
	}
	intrinsics["math/bits.Mul64"] = func(e *Engine, st *State, fr *Frame, args []Value, in *ssa.Call) Value {
		e.usedIntrinsic("math/bits.Mul64")
		x, y := args[0].(*Term), args[1].(*Term)
		prod := mkMul(x, y)
		if prod.IsConst() {
			return tuple(mkInt(new(big.Int).Div(prod.Val, bigW)), mkInt(new(big.Int).Mod(prod.Val, bigW)))
		}
		n := e.freshName("mul64")
		hiMax := new(big.Int).Sub(bigW, big2)
		if _, ph := rangeOf(prod); ph != nil {
			h := new(big.Int).Div(ph, bigW)
			if h.Cmp(hiMax) < 0 {
				hiMax = h
			}
		}
		hi := mkIntVarR(n+".hi", big0, hiMax)
		lo := mkIntVarR(n+".lo", big0, maxU64)
		st.assume(mkEq(mkAdd(mkScale(hi, bigW), lo), prod))
		return tuple(hi, lo)
	}
	intrinsics["(encoding/binary.bigEndian).Uint64"] = func(e *Engine, st *State, fr *Frame, args []Value, in *ssa.Call) Value {
		e.usedIntrinsic("(encoding/binary.bigEndian).Uint64")
		s := args[1].(*SliceVal)
		e.addObligation(st, fr, "safety", "binary.Uint64", mkGe(s.length, mkInt64(8)), "len(b) >= 8")
		r := mkInt64(0)
		for i := int64(0); i < 8; i++ {
			r = mkAdd(mkScale(r, big.NewInt(256)), e.sliceElem(st, s, mkInt64(i)))
		}
		return r
	}
	intrinsics["(encoding/binary.bigEndian).PutUint64"] = func(e *Engine, st *State, fr *Frame, args []Value, in *ssa.Call) Value {
		e.usedIntrinsic("(encoding/binary.bigEndian).PutUint64")
		s := args[1].(*SliceVal)
		v := args[2].(*Term)
		e.addObligation(st, fr, "safety", "binary.PutUint64", mkGe(s.length, mkInt64(8)), "len(b) >= 8")
		if v.IsConst() {
			for i := int64(0); i < 8; i++ {
				b := new(big.Int).Rsh(v.Val, uint(8*(7-i)))
				b.And(b, big.NewInt(255))
				e.sliceElemStore(st, s, mkInt64(i), mkInt(b))
			}
			return nil
		}
		n := e.freshName("put64")
		sum := mkInt64(0)
		for i := int64(0); i < 8; i++ {
			b := mkIntVarR(fmt.Sprintf("%s.b%d", n, i), big0, maxU8)
			e.sliceElemStore(st, s, mkInt64(i), b)
			sum = mkAdd(mkScale(sum, big.NewInt(256)), b)
		}
		st.assume(mkEq(sum, v))
		return nil
	}
	intrinsics["crypto/subtle.ConstantTimeSelect"] = func(e *Engine, st *State, fr *Frame, args []Value, in *ssa.Call) Value {
		e.usedIntrinsic("crypto/subtle.ConstantTimeSelect")
		v, x, y := args[0].(*Term), args[1].(*Term), args[2].(*Term)
		e.addObligation(st, fr, "safety", "ConstantTimeSelect.v", mkAnd(mkLe(mkInt64(0), v), mkLe(v, mkInt64(1))), "v in {0,1}")
		return mkIte(mkEq(v, mkInt64(1)), x, y)
	}
	intrinsics["crypto/subtle.ConstantTimeByteEq"] = func(e *Engine, st *State, fr *Frame, args []Value, in *ssa.Call) Value {
		e.usedIntrinsic("crypto/subtle.ConstantTimeByteEq")
		return mkIte(mkEq(args[0].(*Term), args[1].(*Term)), mkInt64(1), mkInt64(0))
	}
	intrinsics["errors.New"] = func(e *Engine, st *State, fr *Frame, args []Value, in *ssa.Call) Value {
		e.usedIntrinsic("errors.New")
		s := args[0].(*StrVal)
		return &IfaceVal{null: tFalse, tag: "err:" + s.s}
	}
	intrinsics["fmt.Errorf"] = func(e *Engine, st *State, fr *Frame, args []Value, in *ssa.Call) Value {
		e.usedIntrinsic("fmt.Errorf")
		s, _ := args[0].(*StrVal)
		tag := "fmt.Errorf"
		if s != nil && s.known {
			tag = "errorf:" + s.s
		}
		return &IfaceVal{null: tFalse, tag: tag}
	}
	intrinsics["encoding/hex.DecodeString"] = func(e *Engine, st *State, fr *Frame, args []Value, in *ssa.Call) Value {
		s := args[0].(*StrVal)
		if !s.known {
			e.fail("hex.DecodeString on symbolic string")
		}
		b, err := hex.DecodeString(s.s)
		if err != nil {
			return tuple(&SliceVal{off: mkInt64(0), length: mkInt64(0), capacity: mkInt64(0), elem: types.Typ[types.Uint8]}, &IfaceVal{null: tFalse, tag: "hex:" + err.Error()})
		}
		return tuple(e.bytesOfString(st, string(b), types.Typ[types.Uint8]), &IfaceVal{null: tTrue})
	}
	intrinsics["strings.TrimPrefix"] = func(e *Engine, st *State, fr *Frame, args []Value, in *ssa.Call) Value {
		s, p := args[0].(*StrVal), args[1].(*StrVal)
		if !s.known || !p.known {
			e.fail("strings.TrimPrefix on symbolic string")
		}
		return &StrVal{known: true, s: strings.TrimPrefix(s.s, p.s)}
	}
	intrinsics["strings.Repeat"] = func(e *Engine, st *State, fr *Frame, args []Value, in *ssa.Call) Value {
		s, n := args[0].(*StrVal), args[1].(*Term)
		if !s.known || !n.IsConst() {
			e.fail("strings.Repeat on symbolic arguments")
		}
		return &StrVal{known: true, s: strings.Repeat(s.s, int(n.Val.Int64()))}
	}
	// ---- OBJECT IDENTIFIER: assumed contracts (decoding loop over a symbolic number of octets) --------
	// ReadASN1ObjectIdentifier succeeds iff the next TLV is a DER OBJECT IDENTIFIER whose content is a
	// well-formed base-128 component sequence (oidwf, uninterpreted); the decoded value is kept abstract and
	// remembers the content octets it was decoded from.
	intrinsics["(*golang.org/x/crypto/cryptobyte.String).ReadASN1ObjectIdentifier"] = func(e *Engine, st *State, fr *Frame, args []Value, in *ssa.Call) Value {
		e.usedIntrinsic("(*golang.org/x/crypto/cryptobyte.String).ReadASN1ObjectIdentifier")
		sp, op := args[0].(*PtrVal), args[1].(*PtrVal)
		cur := e.load(st, sp, fr).(*SliceVal)
		env := &SpecEnv{e: e, st: st, fnName: "ReadASN1ObjectIdentifier"}
		mk := func(s *State, ok bool) callOutcome {
			env := &SpecEnv{e: e, st: s, fnName: "ReadASN1ObjectIdentifier"}
			if !ok {
				// the parser may have consumed input: both cells are unknown afterwards
				e.havocCell(s, cellRef{sp.reg, sp.path, subType(sp.reg.typ, sp.path)}, e.freshName("ReadOID"))
				e.havocCell(s, cellRef{op.reg, op.path, subType(op.reg.typ, op.path)}, e.freshName("ReadOID"))
				return callOutcome{st: s, result: tFalse}
			}
			content := env.derContent(cur)
			r := e.newRegion(e.freshName("oid"), types.Typ[types.Int], true)
			r.dyn = true
			r.dynLen = mkIntVarR(r.name+".len", big0, big.NewInt(1<<20))
			r.ghostBytes = content
			s.mem.cells[pathKey(r.id, nil)] = &Term{Op: "var", Sort: SArr, Name: r.name + ".arr"}
			e.store(s, op, &SliceVal{reg: r, off: mkInt64(0), length: r.dynLen, capacity: r.dynLen, elem: types.Typ[types.Int], backingN: -1})
			e.store(s, sp, env.derRest(cur))
			return callOutcome{st: s, result: tTrue}
		}
		if cur.reg == nil {
			return &forkVal{outs: []callOutcome{mk(st, false)}}
		}
		content := env.derContent(cur)
		var arr *Term
		if content.reg.dyn {
			arr = e.dynArr(st, content.reg)
		} else {
			e.fail("ReadASN1ObjectIdentifier over an expanded region")
		}
		wf := mkApp("oidwf", SBool, arr, content.off, content.length)
		// canonical encodings of the OIDs this code base compares against are well formed (ground facts
		// about base-128: no leading 0x80 octet, last octet of each component below 0x80)
		for _, enc := range [][]byte{oidEcPublicKeyContent, oidSecp256k1Content} {
			st.assume(mkImplies(env.bytesEqualConst(content, enc), wf))
		}
		cond := st.sub(mkAnd(env.derOK(cur, mkInt64(6)), mkLe(mkInt64(1), content.length), wf))
		if knownTrue(st, cond) {
			return &forkVal{outs: []callOutcome{mk(st, true)}}
		}
		if knownFalse(st, cond) {
			return &forkVal{outs: []callOutcome{mk(st, false)}}
		}
		st2 := st.fork()
		st.assume(cond)
		st2.assume(mkNot(cond))
		var outs []callOutcome
		if !st.infeasible() && !e.unsatisfiable(st.hyps) {
			outs = append(outs, mk(st, true))
		}
		if !st2.infeasible() && !e.unsatisfiable(st2.hyps) {
			outs = append(outs, mk(st2, false))
		}
		return &forkVal{outs: outs}
	}
	// ObjectIdentifier.Equal against a constant OID: component-wise equality <=> the content octets are the
	// (unique, minimal) DER encoding of the constant (X.690 8.19; the parser rejects non-minimal base-128).
	intrinsics["(encoding/asn1.ObjectIdentifier).Equal"] = func(e *Engine, st *State, fr *Frame, args []Value, in *ssa.Call) Value {
		e.usedIntrinsic("(encoding/asn1.ObjectIdentifier).Equal")
		a, b := args[0].(*SliceVal), args[1].(*SliceVal)
		if a.reg == nil || a.reg.ghostBytes == nil {
			a, b = b, a
		}
		if a.reg == nil || a.reg.ghostBytes == nil {
			e.fail("ObjectIdentifier.Equal: no parsed OID operand")
		}
		if b.reg == nil || !b.length.IsConst() {
			e.fail("ObjectIdentifier.Equal: the other operand is not a constant OID")
		}
		var comp []int64
		for i := int64(0); i < b.length.Val.Int64(); i++ {
			c := e.sliceElem(st, b, mkInt64(i))
			if !c.IsConst() {
				e.fail("ObjectIdentifier.Equal: the other operand is not a constant OID")
			}
			comp = append(comp, c.Val.Int64())
		}
		env := &SpecEnv{e: e, st: st, fnName: "ObjectIdentifier.Equal"}
		eq := env.bytesEqualConst(a.reg.ghostBytes, oidContent(comp))
		// the canonical encoding of a constant OID is well formed
		g := a.reg.ghostBytes
		st.assume(mkImplies(eq, mkApp("oidwf", SBool, e.dynArr(st, g.reg), g.off, g.length)))
		return eq
	}
	intrinsics["bytes.Repeat"] = func(e *Engine, st *State, fr *Frame, args []Value, in *ssa.Call) Value {
		e.usedIntrinsic("bytes.Repeat")
		src := args[0].(*SliceVal)
		cnt := st.sub(args[1].(*Term))
		if src.reg == nil || !src.length.IsConst() || !cnt.IsConst() || cnt.Val.Sign() < 0 {
			e.fail("bytes.Repeat with symbolic length or count")
		}
		n, c := src.length.Val.Int64(), cnt.Val.Int64()
		at := types.NewArray(src.elem, n*c)
		r := e.newRegion(e.freshName("repeat"), at, true)
		r.created = st.epoch + 1
		for j := int64(0); j < c; j++ {
			for i := int64(0); i < n; i++ {
				st.mem.cells[pathKey(r.id, []int{int(j*n + i)})] = e.sliceElem(st, src, mkInt64(i))
			}
		}
		l := mkInt64(n * c)
		return &SliceVal{reg: r, off: mkInt64(0), length: l, capacity: l, elem: src.elem, backingN: n * c}
	}
	intrinsics["bytes.Clone"] = func(e *Engine, st *State, fr *Frame, args []Value, in *ssa.Call) Value {
		e.usedIntrinsic("bytes.Clone")
		src := args[0].(*SliceVal)
		if src.reg == nil {
			return src
		}
		if l := st.sub(src.length); l.IsConst() && !src.length.IsConst() {
			c := *src
			c.length = l
			src = &c
		}
		if !src.length.IsConst() {
			// fresh region with the same contents (symbolic length)
			r := e.newRegion(e.freshName("clone"), src.elem, true)
			r.dyn = true
			r.created = st.epoch + 1
			r.dynLen = src.length
			arr := &Term{Op: "var", Sort: SArr, Name: r.name + ".arr", Lo: big0, Hi: maxU8}
			st.mem.cells[pathKey(r.id, nil)] = arr
			// contents are described lazily: element k equals source element k (instantiated on reads via a hypothesis per use is not needed by this code base: clones of symbolic length are only returned)
			return &SliceVal{reg: r, off: mkInt64(0), length: src.length, capacity: src.length, elem: src.elem, backingN: -1}
		}
		n := src.length.Val.Int64()
		at := types.NewArray(src.elem, n)
		r := e.newRegion(e.freshName("clone"), at, true)
		r.created = st.epoch + 1
		for i := int64(0); i < n; i++ {
			st.mem.cells[pathKey(r.id, []int{int(i)})] = e.sliceElem(st, src, mkInt64(i))
		}
		return &SliceVal{reg: r, off: mkInt64(0), length: src.length, capacity: src.length, elem: src.elem, backingN: n}
	}
	bytesEq := func(e *Engine, st *State, a, b *SliceVal) *Term {
		if a.reg == nil || b.reg == nil {
			la, lb := mkInt64(0), mkInt64(0)
			if a.reg != nil {
				la = a.length
			}
			if b.reg != nil {
				lb = b.length
			}
			return mkAnd(mkEq(la, mkInt64(0)), mkEq(lb, mkInt64(0)))
		}
		if a.length.IsConst() && b.length.IsConst() {
			if a.length.Val.Cmp(b.length.Val) != 0 {
				return tFalse
			}
			var cs, as, bs []*Term
			bytesOnly := true
			for i := int64(0); i < a.length.Val.Int64(); i++ {
				x, y := e.sliceElem(st, a, mkInt64(i)), e.sliceElem(st, b, mkInt64(i))
				cs = append(cs, mkEq(x, y))
				as, bs = append(as, x), append(bs, y)
				for _, v := range []*Term{x, y} {
					if lo, hi := rangeOf(v); lo == nil || hi == nil || lo.Sign() < 0 || hi.Cmp(big.NewInt(255)) > 0 {
						bytesOnly = false
					}
				}
			}
			if bytesOnly && len(cs) >= 2 && e.curContract != nil && e.curContract.Options["digits"] {
				// positional notation is unique: two strings of n bytes are equal iff their big-endian values are
				return mkEq(os2ipRaw(as), os2ipRaw(bs))
			}
			return mkAnd(cs...)
		}
		e.fail("byte-slice comparison with symbolic lengths")
		return nil
	}
	intrinsics["bytes.Equal"] = func(e *Engine, st *State, fr *Frame, args []Value, in *ssa.Call) Value {
		e.usedIntrinsic("bytes.Equal")
		return bytesEq(e, st, args[0].(*SliceVal), args[1].(*SliceVal))
	}
	intrinsics["crypto/subtle.ConstantTimeCompare"] = func(e *Engine, st *State, fr *Frame, args []Value, in *ssa.Call) Value {
		e.usedIntrinsic("crypto/subtle.ConstantTimeCompare")
		return mkIte(bytesEq(e, st, args[0].(*SliceVal), args[1].(*SliceVal)), mkInt64(1), mkInt64(0))
	}
	intrinsics["(crypto.Hash).Size"] = func(e *Engine, st *State, fr *Frame, args []Value, in *ssa.Call) Value {
		e.usedIntrinsic("(crypto.Hash).Size")
		h := st.sub(args[0].(*Term))
		// sizes of the registered hash identifiers (crypto.Hash documentation); unknown identifiers panic
		sizes := map[int64]int64{1: 16, 2: 16, 3: 20, 4: 28, 5: 32, 6: 48, 7: 64, 8: 36, 9: 20, 10: 28, 11: 32, 12: 48, 13: 64, 14: 28, 15: 32, 16: 32, 17: 32, 18: 48, 19: 64}
		if h.IsConst() {
			if s, ok := sizes[h.Val.Int64()]; ok {
				return mkInt64(s)
			}
			e.addObligation(st, fr, "safety", "crypto.Hash.Size", tFalse, "crypto.Hash.Size panics for unknown hash identifiers")
			return mkInt64(0)
		}
		e.addObligation(st, fr, "safety", "crypto.Hash.Size", mkAnd(mkLe(mkInt64(1), h), mkLe(h, mkInt64(19))), "crypto.Hash.Size panics for unknown hash identifiers (precondition: known hash id)")
		st.assume(mkAnd(mkLe(mkInt64(1), h), mkLe(h, mkInt64(19))))
		res := mkInt64(0)
		for k := int64(19); k >= 1; k-- {
			res = mkIte(mkEq(h, mkInt64(k)), mkInt64(sizes[k]), res)
		}
		return res
	}
	intrinsics["(*errors.errorString).Error"] = func(e *Engine, st *State, fr *Frame, args []Value, in *ssa.Call) Value {
		return &StrVal{}
	}
	intrinsics["invoke error.Error"] = func(e *Engine, st *State, fr *Frame, args []Value, in *ssa.Call) Value {
		return &StrVal{known: true, s: "<error text>"}
	}
}

// ---------------------------------------------------------------------------- builtins

func (e *Engine) builtin(st *State, fr *Frame, name string, args []Value, in *ssa.Call) Value {
	switch name {
	case "len":
		switch a := args[0].(type) {
		case *SliceVal:
			return a.length
		case *StrVal:
			if a.known {
				return mkInt64(int64(len(a.s)))
			}
			if a.sym != nil {
				return a.sym.length
			}
			if a.abs != nil {
				// contents not tracked: the length is a function of the abstract value
				l := mkApp("strlen", SInt, a.abs)
				st.assume(mkLe(mkInt64(0), l))
				return l
			}
		}
		e.fail("len of unsupported value %T", args[0])
	case "cap":
		return args[0].(*SliceVal).capacity
	case "ssa:wrapnilchk":
		return args[0]
	case "copy":
		dst := args[0].(*SliceVal)
		var src *SliceVal
		switch s := args[1].(type) {
		case *SliceVal:
			src = s
		case *StrVal:
			if !s.known {
				e.fail("copy from symbolic string")
			}
			src = e.bytesOfString(st, s.s, dst.elem)
		}
		return e.copySlices(st, fr, dst, src)
	case "append":
		s := args[0].(*SliceVal)
		var add *SliceVal
		switch a := args[1].(type) {
		case *SliceVal:
			add = a
		case *StrVal:
			if !a.known {
				e.fail("append of symbolic string")
			}
			add = e.bytesOfString(st, a.s, s.elem)
		}
		return e.appendSlices(st, fr, s, add)
	}
	e.fail("unsupported builtin %s", name)
	return nil
}

func minTerm(a, b *Term) *Term {
	c := mkLe(a, b)
	return mkIte(c, a, b)
}

func (e *Engine) copySlices(st *State, fr *Frame, dst, src *SliceVal) Value {
	n := st.sub(minTerm(st.sub(dst.length), st.sub(src.length)))
	if n.IsConst() {
		k := n.Val.Int64()
		// read all first (overlap-safe)
		vals := make([]Value, k)
		for i := int64(0); i < k; i++ {
			vals[i] = e.sliceElemAny(st, src, mkInt64(i))
		}
		for i := int64(0); i < k; i++ {
			e.sliceElemStoreAny(st, dst, mkInt64(i), vals[i])
		}
		return n
	}
	if dst.reg == nil {
		return n
	}
	if dst.reg.dyn {
		e.fail("copy of symbolic length into dynamic region (%s)", fr.fn)
	}
	// expanded destination, symbolic window: cell j gets ite(off<=j<off+n, src[j-off], old)
	bn := dst.backingN
	newVals := make([]*Term, bn)
	for j := int64(0); j < bn; j++ {
		jt := mkInt64(j)
		inr := mkAnd(mkLe(dst.off, jt), mkLt(jt, mkAdd(dst.off, n)))
		old := e.loadPath(st, dst.reg, extend(dst.path, int(j)), dst.elem).(*Term)
		if inr.IsConst() && inr.Val.Sign() == 0 {
			newVals[j] = old
			continue
		}
		sv := e.sliceElem(st, src, mkSub(jt, dst.off))
		newVals[j] = mkIte(inr, sv, old)
	}
	for j := int64(0); j < bn; j++ {
		e.storePath(st, dst.reg, extend(dst.path, int(j)), dst.elem, newVals[j])
	}
	return n
}

func (e *Engine) sliceElemAny(st *State, s *SliceVal, k *Term) Value {
	if isScalarType(s.elem) {
		return e.sliceElem(st, s, k)
	}
	idx := mkAdd(s.off, k)
	if !idx.IsConst() || s.reg.dyn {
		e.fail("symbolic access to slice of aggregates")
	}
	return e.loadPath(st, s.reg, extend(s.path, int(idx.Val.Int64())), s.elem)
}

func (e *Engine) sliceElemStoreAny(st *State, s *SliceVal, k *Term, v Value) {
	if isScalarType(s.elem) {
		e.sliceElemStore(st, s, k, v.(*Term))
		return
	}
	idx := mkAdd(s.off, k)
	if !idx.IsConst() || s.reg.dyn {
		e.fail("symbolic access to slice of aggregates")
	}
	e.storePath(st, s.reg, extend(s.path, int(idx.Val.Int64())), s.elem, v)
}

func (e *Engine) appendSlices(st *State, fr *Frame, s, add *SliceVal) Value {
	newLen := mkAdd(s.length, add.length)
	fits := st.sub(mkLe(newLen, s.capacity))
	if !fits.IsConst() && s.reg != nil {
		// decide the capacity relation from the path condition
		if knownTrue(st, fits) || e.unsatisfiable(append(append([]*Term{}, st.hyps...), mkNot(fits))) {
			fits = tTrue
		} else if knownFalse(st, fits) || e.unsatisfiable(append(append([]*Term{}, st.hyps...), fits)) {
			fits = tFalse
		}
	}
	if s.reg != nil && fits.IsConst() && fits.Val.Sign() != 0 {
		// in place
		if !add.length.IsConst() {
			e.fail("append of symbolic length in place (%s)", fr.fn)
		}
		k := add.length.Val.Int64()
		vals := make([]Value, k)
		for i := int64(0); i < k; i++ {
			vals[i] = e.sliceElemAny(st, add, mkInt64(i))
		}
		for i := int64(0); i < k; i++ {
			e.sliceElemStoreAny(st, s, mkAdd(s.length, mkInt64(i)), vals[i])
		}
		return &SliceVal{reg: s.reg, path: s.path, off: s.off, length: newLen, capacity: s.capacity, elem: s.elem, backingN: s.backingN}
	}
	if newLen.IsConst() && (s.reg == nil || (fits.IsConst() && fits.Val.Sign() == 0)) {
		// reallocation
		k := newLen.Val.Int64()
		at := types.NewArray(s.elem, k)
		r := e.newRegion(fr.fn.Name()+".append#"+fmt.Sprint(e.regionN+1), at, true)
		r.created = st.epoch + 1
		e.initRegionZero(st, r)
		ns := &SliceVal{reg: r, off: mkInt64(0), length: newLen, capacity: newLen, elem: s.elem, backingN: k}
		sl := int64(0)
		if s.reg != nil {
			sl = s.length.Val.Int64()
			for i := int64(0); i < sl; i++ {
				e.sliceElemStoreAny(st, ns, mkInt64(i), e.sliceElemAny(st, s, mkInt64(i)))
			}
		}
		for i := int64(0); i < add.length.Val.Int64(); i++ {
			e.sliceElemStoreAny(st, ns, mkInt64(sl+i), e.sliceElemAny(st, add, mkInt64(i)))
		}
		return ns
	}
	if s.reg != nil && !s.reg.fresh && !fits.IsConst() {
		// append to a slice this activation did not allocate: with spare capacity it writes into the caller's
		// backing array behind len(s).  That store is outside every frame, so it is an obligation that it cannot
		// happen (the capacity is exhausted); the engine has no model of the bytes behind len(s) to continue with.
		e.addObligation(st, fr, "frame", "append:"+s.reg.name, mkNot(fits), "append to a slice the function did not allocate must not write into the spare capacity of the caller's backing array (cap == len is not known here)")
	}
	e.fail("append with symbolic capacity relation in %s (len=%s add=%s cap=%s)", fr.fn, s.length.Key(), add.length.Key(), s.capacity.Key())
	return nil
}
