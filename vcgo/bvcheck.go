package main

// Bit-vector mode (`mode bv` in a contract): straight-line functions over unsigned machine integers whose bodies
// are bit tricks (math/bits.Add64 / Sub64: the carry is read off the top bits of x, y and the sum).  The integer
// mode abstracts `&`, `|`, `^` of two non-constant operands by uninterpreted functions and cannot decide such code;
// here every SSA instruction becomes the SMT-LIB bit-vector operation of the operand width, which is exactly Go's
// semantics of unsigned arithmetic, and the contract's requires / ensures (arithmetic over the mathematical
// integers) are evaluated in a width that is checked to be large enough for every sub-expression (interval bound),
// so that no wrap-around can occur on the specification side.
//
// Subset: a single basic block; parameters and results of unsigned integer type; BinOp (+ - * & | ^ &^ << >> and
// comparisons are not needed), UnOp (^ -), Convert between unsigned integers, constants, Return.  Anything else is
// an engine error (the function is then reported as not verifiable, never as proved).

import (
	"fmt"
	"go/ast"
	"go/constant"
	"go/token"
	"go/types"
	"math/big"
	"strings"

	"golang.org/x/tools/go/ssa"
)

const bvSpecWidth = 256

func bvT(op string, w int, args ...*Term) *Term {
	return &Term{Op: op, Sort: SBV, W: w, Args: args}
}

func bvConst(v *big.Int, w int) *Term {
	m := new(big.Int).Lsh(big1, uint(w))
	return &Term{Op: "const", Sort: SBV, W: w, Val: new(big.Int).Mod(v, m)}
}

func bvResize(t *Term, w int) *Term {
	switch {
	case t.W == w:
		return t
	case t.W < w:
		return bvT("bvzext", w, t)
	}
	return &Term{Op: "bvextract", Sort: SBV, W: w, Args: []*Term{t}, Val: big.NewInt(0)}
}

func unsignedWidth(t types.Type) (int, bool) {
	b, ok := t.Underlying().(*types.Basic)
	if !ok {
		return 0, false
	}
	switch b.Kind() {
	case types.Uint8:
		return 8, true
	case types.Uint16:
		return 16, true
	case types.Uint32:
		return 32, true
	case types.Uint64, types.Uint, types.Uintptr:
		return 64, true
	}
	return 0, false
}

// specVal is a specification-side integer: a bit-vector of bvSpecWidth bits with an upper bound on its value.
type specVal struct {
	t  *Term
	hi *big.Int
	b  *Term // boolean, if the expression is a formula
}

func (e *Engine) verifyBV(fn *ssa.Function, c *Contract) {
	if len(fn.Blocks) != 1 {
		e.fail("mode bv: %d basic blocks (only straight-line code is in the subset)", len(fn.Blocks))
	}
	vals := map[ssa.Value]*Term{}
	names := map[string]*Term{}
	for _, p := range fn.Params {
		w, ok := unsignedWidth(p.Type())
		if !ok {
			e.fail("mode bv: parameter %s has type %s", p.Name(), p.Type())
		}
		v := &Term{Op: "var", Sort: SBV, W: w, Name: p.Name()}
		vals[p] = v
		names[p.Name()] = v
	}
	get := func(v ssa.Value, wHint int) *Term {
		if t, ok := vals[v]; ok {
			return t
		}
		if k, ok := v.(*ssa.Const); ok {
			w, ok := unsignedWidth(k.Type())
			if !ok {
				// shift counts may be untyped / signed constants
				if k.Value != nil && k.Value.Kind() == constant.Int && constant.Sign(k.Value) >= 0 {
					w = wHint
				} else {
					e.fail("mode bv: constant %s of type %s", k, k.Type())
				}
			}
			bi, ok2 := new(big.Int).SetString(k.Value.ExactString(), 10)
			if !ok2 {
				e.fail("mode bv: constant %s", k)
			}
			return bvConst(bi, w)
		}
		e.fail("mode bv: value %s (%T) is not defined by a supported instruction", v.Name(), v)
		return nil
	}
	var results []*Term
	returned := false
	for _, in := range fn.Blocks[0].Instrs {
		switch x := in.(type) {
		case *ssa.DebugRef:
		case *ssa.BinOp:
			w, ok := unsignedWidth(x.Type())
			if !ok {
				e.fail("mode bv: %s has type %s", x, x.Type())
			}
			a := get(x.X, w)
			var b *Term
			if x.Op == token.SHL || x.Op == token.SHR {
				b = get(x.Y, w)
				// Go: a shift count >= width gives 0, which is also the SMT-LIB meaning once the count is widened
				if b.W > w {
					e.fail("mode bv: shift count wider than the operand in %s", x)
				}
				b = bvResize(b, w)
			} else {
				b = get(x.Y, w)
			}
			if a.W != w || b.W != w {
				e.fail("mode bv: operand widths in %s", x)
			}
			var t *Term
			switch x.Op {
			case token.ADD:
				t = bvT("bvadd", w, a, b)
			case token.SUB:
				t = bvT("bvsub", w, a, b)
			case token.MUL:
				t = bvT("bvmul", w, a, b)
			case token.AND:
				t = bvT("bvand", w, a, b)
			case token.OR:
				t = bvT("bvor", w, a, b)
			case token.XOR:
				t = bvT("bvxor", w, a, b)
			case token.AND_NOT:
				t = bvT("bvand", w, a, bvT("bvnot", w, b))
			case token.SHL:
				t = bvT("bvshl", w, a, b)
			case token.SHR:
				t = bvT("bvlshr", w, a, b)
			default:
				e.fail("mode bv: operator %s", x.Op)
			}
			vals[x] = t
			if x.Name() != "" {
				names[x.Name()] = t
			}
		case *ssa.UnOp:
			w, ok := unsignedWidth(x.Type())
			if !ok {
				e.fail("mode bv: %s has type %s", x, x.Type())
			}
			a := get(x.X, w)
			switch x.Op {
			case token.XOR:
				vals[x] = bvT("bvnot", w, a)
			case token.SUB:
				vals[x] = bvT("bvneg", w, a)
			default:
				e.fail("mode bv: unary operator %s", x.Op)
			}
		case *ssa.Convert:
			w, ok := unsignedWidth(x.Type())
			if !ok {
				e.fail("mode bv: conversion to %s", x.Type())
			}
			if _, ok := unsignedWidth(x.X.Type()); !ok {
				e.fail("mode bv: conversion from %s", x.X.Type())
			}
			vals[x] = bvResize(get(x.X, w), w)
		case *ssa.Return:
			for _, r := range x.Results {
				w, ok := unsignedWidth(r.Type())
				if !ok {
					e.fail("mode bv: result of type %s", r.Type())
				}
				results = append(results, get(r, w))
			}
			returned = true
		default:
			e.fail("mode bv: instruction %T (%s) is outside the subset", in, in)
		}
	}
	if !returned {
		e.fail("mode bv: no return")
	}
	for i, r := range results {
		names[fmt.Sprintf("result%d", i)] = r
	}
	if len(results) == 1 {
		names["result"] = results[0]
	}
	// named results (sum, carryOut ...) may be used by the contract as well
	if sig := fn.Signature.Results(); sig != nil {
		for i := 0; i < sig.Len() && i < len(results); i++ {
			if n := sig.At(i).Name(); n != "" && n != "_" {
				if _, clash := names[n]; !clash {
					names[n] = results[i]
				}
			}
		}
	}
	var hyps []*Term
	for _, rq := range c.Requires {
		hyps = append(hyps, e.bvFormula(rq.Expr, names))
	}
	e.anyReturn = true
	mk := func(kind, label string, goal *Term, text string) {
		name := fmt.Sprintf("%s#%s:%s", e.curFunc, kind, label)
		e.oblNames[name]++
		o := &Obligation{Name: name, Kind: kind, Func: e.curFunc, Props: e.curProps, Goal: goal, Hyps: append([]*Term{}, hyps...), Text: text, Timeout: c.Timeout}
		e.obls = append(e.obls, o)
	}
	mk("cover", "entry", tFalse, "the precondition is satisfiable (vacuity guard)")
	if len(c.Ensures) == 0 {
		e.fail("mode bv: contract without ensures")
	}
	for i, en := range c.Ensures {
		mk("ensures", fmt.Sprint(i), e.bvFormula(en.Expr, names), strings.TrimSpace(en.Text)+" [bit-vector semantics of every instruction; specification arithmetic in "+fmt.Sprint(bvSpecWidth)+" bits, overflow-free by interval bound]")
	}
}

func (e *Engine) bvFormula(x ast.Expr, names map[string]*Term) *Term {
	v := e.bvSpec(x, names)
	if v.b == nil {
		e.fail("mode bv: %s is not a formula", exprString(x))
	}
	return v.b
}

func (e *Engine) bvSpec(x ast.Expr, names map[string]*Term) specVal {
	limit := new(big.Int).Lsh(big1, bvSpecWidth)
	num := func(t *Term, hi *big.Int) specVal {
		if hi.Cmp(limit) >= 0 {
			e.fail("mode bv: specification expression may exceed %d bits", bvSpecWidth)
		}
		return specVal{t: t, hi: hi}
	}
	switch n := x.(type) {
	case *ast.ParenExpr:
		return e.bvSpec(n.X, names)
	case *ast.BasicLit:
		v, ok := new(big.Int).SetString(n.Value, 0)
		if !ok || v.Sign() < 0 {
			e.fail("mode bv: literal %s", n.Value)
		}
		return num(bvConst(v, bvSpecWidth), v)
	case *ast.Ident:
		if n.Name == "W" {
			return num(bvConst(bigW, bvSpecWidth), bigW)
		}
		t, ok := names[n.Name]
		if !ok {
			e.fail("mode bv: unknown name %s in the contract", n.Name)
		}
		hi := new(big.Int).Sub(new(big.Int).Lsh(big1, uint(t.W)), big1)
		return num(bvResize(t, bvSpecWidth), hi)
	case *ast.BinaryExpr:
		switch n.Op {
		case token.LAND, token.LOR:
			a, b := e.bvFormula(n.X, names), e.bvFormula(n.Y, names)
			op := "and"
			if n.Op == token.LOR {
				op = "or"
			}
			return specVal{b: &Term{Op: op, Sort: SBool, Args: []*Term{a, b}}}
		}
		a, b := e.bvSpec(n.X, names), e.bvSpec(n.Y, names)
		if a.t == nil || b.t == nil {
			e.fail("mode bv: %s applied to a formula", n.Op)
		}
		switch n.Op {
		case token.ADD:
			return num(bvT("bvadd", bvSpecWidth, a.t, b.t), new(big.Int).Add(a.hi, b.hi))
		case token.MUL:
			return num(bvT("bvmul", bvSpecWidth, a.t, b.t), new(big.Int).Mul(a.hi, b.hi))
		case token.EQL:
			return specVal{b: &Term{Op: "=", Sort: SBool, Args: []*Term{a.t, b.t}}}
		case token.NEQ:
			return specVal{b: &Term{Op: "not", Sort: SBool, Args: []*Term{{Op: "=", Sort: SBool, Args: []*Term{a.t, b.t}}}}}
		case token.LEQ:
			return specVal{b: &Term{Op: "bvule", Sort: SBool, Args: []*Term{a.t, b.t}}}
		case token.LSS:
			return specVal{b: &Term{Op: "bvult", Sort: SBool, Args: []*Term{a.t, b.t}}}
		case token.GEQ:
			return specVal{b: &Term{Op: "bvule", Sort: SBool, Args: []*Term{b.t, a.t}}}
		case token.GTR:
			return specVal{b: &Term{Op: "bvult", Sort: SBool, Args: []*Term{b.t, a.t}}}
		}
		// subtraction is deliberately absent: the specification side works over the natural numbers, write a + c == b
		e.fail("mode bv: operator %s in the contract (use + * == != <= < >= > && ||)", n.Op)
	}
	e.fail("mode bv: unsupported contract expression %s", exprString(x))
	return specVal{}
}
