package main

// Symbolic values and the memory model.
//
// Memory is a set of regions.  A region is either *expanded* (typed, fixed size: one cell per scalar
// leaf, addressed by a path of field / constant array indices) or *dynamic* (a byte/int sequence of
// symbolic length, held as an SMT array term).  Pointers are (region, path); slices are
// (region, path-to-array, off, len, cap).

import (
	"fmt"
	"go/types"
	"math/big"
	"strconv"
	"strings"
)

type Value interface{}

type Region struct {
	id         int
	name       string
	typ        types.Type // object type (expanded) or element type (dynamic)
	dyn        bool
	dynLen     *Term
	fresh      bool // allocated during the activation under verification
	global     bool
	ronly      bool       // read-only ghost region (string literals etc.)
	opaque     bool       // object of a dependency type: only its ghost state is modelled
	ghostBytes *SliceVal  // parsed OID values remember their content octets
	family     types.Type // slice of pointers: pointee type of the element family (elements are lazily symbolic objects)
	aliasPtr   *PtrVal    // alias variant: element aliasIdx of the family is this object
	aliasIdx   *Term
	familyOf   *Region
	tblKind    string // generator table region: huge | odd
	lazy       bool   // cells are created on demand as deterministic symbolic variables
	created    int    // state epoch of creation
}

type PtrVal struct {
	reg  *Region
	path []int
	sym  *Term // optional symbolic last index (arrays of scalars / dynamic regions)
	typ  types.Type
	null bool
}

type SliceVal struct {
	reg      *Region // nil => nil slice
	path     []int   // path to the backing array inside an expanded region
	off      *Term
	length   *Term
	capacity *Term
	elem     types.Type
	backingN int64 // length of backing array (expanded); -1 for dynamic
}

type AggVal struct {
	typ   types.Type
	elems []Value
}

type StrVal struct {
	known bool
	s     string
	sym   *SliceVal // symbolic string viewed as bytes
	abs   *Term     // abstract byte-string value (Int-sorted bstr term) of a string whose bytes are not tracked
}

type IfaceVal struct {
	null   *Term // Bool: is nil interface
	dyn    types.Type
	val    Value
	tag    string       // identity tag for error sentinels
	tagT   *Term        // symbolic identity (Int) when unknown
	notDyn []types.Type // dynamic types excluded for a symbolic interface value
	obj    string       // ghost object identity of a symbolic interface value (streams, hash objects)
}

type FuncVal struct {
	fn   interface{} // *ssa.Function
	bind []Value
}

type TupleVal struct{ elems []Value }

func pathKey(id int, path []int) string {
	var sb strings.Builder
	sb.WriteString("r")
	sb.WriteString(strconv.Itoa(id))
	for _, p := range path {
		sb.WriteByte('/')
		sb.WriteString(strconv.Itoa(p))
	}
	return sb.String()
}

// Memory is copied on fork.
type Memory struct {
	cells map[string]Value
}

func (m *Memory) clone() *Memory {
	n := &Memory{cells: make(map[string]Value, len(m.cells))}
	for k, v := range m.cells {
		n.cells[k] = v
	}
	return n
}

// ---------------------------------------------------------------------------- type helpers

func underlying(t types.Type) types.Type { return t.Underlying() }

func isScalarType(t types.Type) bool {
	switch u := underlying(t).(type) {
	case *types.Basic:
		return u.Info()&(types.IsInteger|types.IsBoolean) != 0
	}
	return false
}

func intRange(t types.Type) (lo, hi *big.Int) {
	b, ok := underlying(t).(*types.Basic)
	if !ok {
		return nil, nil
	}
	pow := func(n uint) *big.Int { return new(big.Int).Lsh(big1, n) }
	switch b.Kind() {
	case types.Uint8:
		return big0, big.NewInt(255)
	case types.Uint16:
		return big0, big.NewInt(65535)
	case types.Uint32:
		return big0, new(big.Int).Sub(pow(32), big1)
	case types.Uint64, types.Uint, types.Uintptr:
		return big0, new(big.Int).Sub(pow(64), big1)
	case types.Int8:
		return big.NewInt(-128), big.NewInt(127)
	case types.Int16:
		return big.NewInt(-32768), big.NewInt(32767)
	case types.Int32:
		return new(big.Int).Neg(pow(31)), new(big.Int).Sub(pow(31), big1)
	case types.Int64, types.Int:
		return new(big.Int).Neg(pow(63)), new(big.Int).Sub(pow(63), big1)
	case types.UntypedInt:
		return nil, nil
	}
	return nil, nil
}

func bitWidth(t types.Type) int {
	b, ok := underlying(t).(*types.Basic)
	if !ok {
		return 0
	}
	switch b.Kind() {
	case types.Uint8, types.Int8:
		return 8
	case types.Uint16, types.Int16:
		return 16
	case types.Uint32, types.Int32:
		return 32
	case types.Uint64, types.Int64, types.Int, types.Uint, types.Uintptr:
		return 64
	case types.Bool:
		return 1
	}
	return 0
}

func isSigned(t types.Type) bool {
	b, ok := underlying(t).(*types.Basic)
	return ok && b.Info()&types.IsInteger != 0 && b.Info()&types.IsUnsigned == 0
}

// subType returns the type at a path inside t.
func subType(t types.Type, path []int) types.Type {
	for _, p := range path {
		switch u := underlying(t).(type) {
		case *types.Struct:
			t = u.Field(p).Type()
		case *types.Array:
			t = u.Elem()
		default:
			panic(fmt.Sprintf("subType: cannot descend into %s", t))
		}
	}
	return t
}

// leafPaths enumerates scalar-leaf paths (relative) of a type.
func leafPaths(t types.Type, prefix []int, f func(path []int, lt types.Type)) {
	switch u := underlying(t).(type) {
	case *types.Struct:
		for i := 0; i < u.NumFields(); i++ {
			leafPaths(u.Field(i).Type(), append(append([]int{}, prefix...), i), f)
		}
	case *types.Array:
		for i := int64(0); i < u.Len(); i++ {
			leafPaths(u.Elem(), append(append([]int{}, prefix...), int(i)), f)
		}
	default:
		f(prefix, t)
	}
}

func pathName(t types.Type, path []int) string {
	var sb strings.Builder
	for _, p := range path {
		switch u := underlying(t).(type) {
		case *types.Struct:
			sb.WriteString("." + u.Field(p).Name())
			t = u.Field(p).Type()
		case *types.Array:
			sb.WriteString("[" + strconv.Itoa(p) + "]")
			t = u.Elem()
		}
	}
	return sb.String()
}

func extend(path []int, i ...int) []int {
	return append(append(make([]int, 0, len(path)+len(i)), path...), i...)
}
