package main

// Field tactic: deciding equations between rational expressions over Z/M (M prime) in the polynomial normal form.
//
// A goal  D == 0  may contain inverses in two shapes: a residue atom a known to be non-zero raised to an exponent
// above (M-1)/2 (after Fermat reduction that is a^-(M-1-e)), and the opaque power  fpow(q, M-2)  of a polynomial q
// for which  q != 0  is a hypothesis.  The tactic
//   1. rewrites squares by hypotheses of the form  y^2 * m == p  (m a monomial without y): one reduction step per
//      occurrence, multiplying the whole goal by m where needed (m's atoms must be known non-zero),
//   2. multiplies the goal by the product of the denominators (sound: they are non-zero and Z/M is a field),
//   3. substitutes the definitions  a == p(u)  of abstracted atoms (hypotheses that are linear in an atom created by
//      an `abstract(...)` clause),
//   4. accepts iff the resulting polynomial is identically zero.
// Every step only uses valid equalities and multiplication by non-zero field elements, so "accept" implies the
// goal; "reject" decides nothing (the obligation then goes to the SMT back ends as before).

import (
	"fmt"
	"math/big"
	"os"
	"strings"
)

type invBase struct {
	key  string
	poly *Poly // the base as a polynomial
	atom *Term // non-nil when the base is a residue atom (negative exponents in monomials)
	fpow *Term // non-nil when the base appears as the atom fpow(q, M-2)
	maxK int64
}

// fieldProve tries to establish the ring equation `goal` ((= D 0) over Fp/Fn) from the state's hypotheses.
func (e *Engine) fieldProve(st *State, goal *Term) bool {
	if goal.Op != "=" || len(goal.Args) != 2 || !goal.Args[1].IsConst() || goal.Args[1].Val.Sign() != 0 {
		return false
	}
	sort := goal.Args[0].Sort
	M := modulusOf(sort)
	if M == nil {
		return false
	}
	D := polyOf(goal.Args[0])
	if len(D.t) == 0 {
		return true
	}
	if len(D.t) > 4000 {
		return false
	}
	m1 := new(big.Int).Sub(M, big1)
	half := new(big.Int).Rsh(m1, 1)
	nonzeroPoly := func(q *Term) bool {
		if st.hypKeys[mkNot(mkEq(q, mkRingConst(sort, big0))).Key()] {
			return true
		}
		if a := residueAtom(q); a != nil && st.nonzero[a.Key()] {
			return true
		}
		if q.IsConst() && q.Val.Sign() != 0 {
			return true
		}
		return false
	}
	// ---- step 1: square relations  y^2 * m == p
	type sqRel struct {
		y    *Term
		k    int64 // the power of y that is rewritten
		m    *Mono // cofactor monomial (may be empty)
		c    *big.Int
		rest *Poly // y^k*m*c + rest == 0 (rest may contain lower powers of y when the relation is univariate)
	}
	var rels []sqRel
	for _, h := range st.hyps {
		if h.Op != "=" || len(h.Args) != 2 || h.Args[0].Sort != sort || !h.Args[1].IsConst() || h.Args[1].Val.Sign() != 0 || h.Args[0].Op != "poly" {
			continue
		}
		P := h.Args[0].P
		if len(P.t) > 400 {
			continue
		}
		// find an atom y occurring in exactly one monomial, there with exponent 2
		occ := map[string]int{}
		for _, t := range P.t {
			for _, f := range t.m.f {
				occ[f.atom.Key()]++
			}
		}
		for k, t := range P.t {
			for fi, f := range t.m.f {
				if f.exp.Cmp(big2) != 0 || occ[f.atom.Key()] != 1 || !isAtomTerm(f.atom) {
					continue
				}
				co := &Mono{}
				for fj, g := range t.m.f {
					if fj != fi {
						co.f = append(co.f, g)
					}
				}
				okCo := true
				for _, g := range co.f {
					if !(st.nonzero[g.atom.Key()]) {
						okCo = false
					}
				}
				if !okCo {
					continue
				}
				rest := newPoly(sort)
				for k2, t2 := range P.t {
					if k2 != k {
						rest.t[k2] = t2
					}
				}
				rels = append(rels, sqRel{y: f.atom, k: 2, m: co, c: t.c, rest: rest})
			}
		}
		// a univariate relation p(y) == 0 (exceptional-case hypotheses such as Z^2 u^4 + Z u^2 == 0): rewrite the
		// leading power
		if len(occ) == 1 {
			var y *Term
			var lead string
			deg := int64(0)
			for k, t := range P.t {
				for _, f := range t.m.f {
					y = f.atom
					if f.exp.IsInt64() && f.exp.Int64() > deg {
						deg, lead = f.exp.Int64(), k
					}
				}
			}
			if y != nil && deg >= 2 && deg <= 64 && isAtomTerm(y) {
				rest := newPoly(sort)
				for k2, t2 := range P.t {
					if k2 != lead {
						rest.t[k2] = t2
					}
				}
				rels = append(rels, sqRel{y: y, k: deg, m: &Mono{}, c: P.t[lead].c, rest: rest})
			}
		}
	}
	reduce := func() bool {
		for iter := 0; iter < 64 && len(rels) > 0; iter++ {
			changed := false
			for _, r := range rels {
				// does D contain y^e with e >= 2 ?
				has := false
				for _, t := range D.t {
					for _, f := range t.m.f {
						if f.atom.Key() == r.y.Key() && f.exp.Cmp(big.NewInt(r.k)) >= 0 && f.exp.Cmp(half) < 0 {
							has = true
						}
					}
				}
				if !has {
					continue
				}
				// multiply D by c*m (non-zero), then replace  c*m*y^2  by  -rest  in every monomial with y^e, e >= 2
				cm := newPoly(sort)
				cm.addTerm(r.m, r.c)
				nd := newPoly(sort)
				negRest := r.rest.Scale(big.NewInt(-1))
				for _, t := range D.t {
					var others []monoFactor
					ye := int64(0)
					for _, f := range t.m.f {
						if f.atom.Key() == r.y.Key() && f.exp.Cmp(half) < 0 {
							ye = f.exp.Int64()
						} else {
							others = append(others, f)
						}
					}
					base := newPoly(sort)
					if ye >= r.k {
						// c * others * y^(ye-k) * (c*m*y^k)  ->  c * others * y^(ye-k) * (-rest)
						fs := append([]monoFactor{}, others...)
						if ye-r.k > 0 {
							fs = append(fs, monoFactor{r.y, big.NewInt(ye - r.k)})
						}
						mm := (&Mono{}).withFactors(fs)
						base.addTerm(mm, t.c)
						nd = nd.Add(base.Mul(negRest))
					} else {
						base.addTerm(t.m, t.c)
						nd = nd.Add(base.Mul(cm))
					}
				}
				D = nd
				changed = true
				if len(D.t) > 20000 {
					return false
				}
			}
			if !changed {
				break
			}
		}
		return true
	}
	if !reduce() {
		return false
	}
	// ---- step 2: clear denominators
	bases := map[string]*invBase{}
	negExp := func(f monoFactor) (int64, bool) {
		// atom^e with e > (M-1)/2 and the atom non-zero: a^-(M-1-e)
		if f.exp.Cmp(half) > 0 && st.nonzero[f.atom.Key()] {
			k := new(big.Int).Sub(m1, f.exp)
			if k.IsInt64() && k.Int64() < 64 {
				return k.Int64(), true
			}
		}
		return 0, false
	}
	isFpowInv := func(a *Term) (*Term, bool) {
		if a.Op == "app" && a.Name == "fpow" && a.Val != nil && a.Val.Cmp(new(big.Int).Sub(M, big2)) == 0 && nonzeroPoly(a.Args[0]) {
			return a.Args[0], true
		}
		return nil, false
	}
	for _, t := range D.t {
		for _, f := range t.m.f {
			if k, ok := negExp(f); ok {
				b := bases[f.atom.Key()]
				if b == nil {
					b = &invBase{key: f.atom.Key(), poly: polyOf(f.atom), atom: f.atom}
					bases[b.key] = b
				}
				if k > b.maxK {
					b.maxK = k
				}
			} else if q, ok := isFpowInv(f.atom); ok {
				if !f.exp.IsInt64() || f.exp.Int64() > 16 {
					return false
				}
				b := bases[f.atom.Key()]
				if b == nil {
					b = &invBase{key: f.atom.Key(), poly: polyOf(q), fpow: f.atom}
					bases[b.key] = b
				}
				if f.exp.Int64() > b.maxK {
					b.maxK = f.exp.Int64()
				}
			} else if f.exp.Cmp(half) > 0 {
				if os.Getenv("VCGO_DEBUG_FIELD") != "" {
					fmt.Fprintf(os.Stderr, "[field] large exponent of an atom not known to be non-zero: %s\n", trunc(pretty(f.atom, 4), 300))
				}
				return false // a large exponent that is not known to be an inverse
			}
		}
	}
	if len(bases) > 0 {
		nd := newPoly(sort)
		for _, t := range D.t {
			var keep []monoFactor
			mult := polyConst(sort, big1)
			used := map[string]int64{}
			for _, f := range t.m.f {
				if k, ok := negExp(f); ok {
					used[f.atom.Key()] = k
				} else if _, ok := isFpowInv(f.atom); ok {
					used[f.atom.Key()] = f.exp.Int64()
				} else {
					keep = append(keep, f)
				}
			}
			for _, b := range bases {
				for i := int64(0); i < b.maxK-used[b.key]; i++ {
					mult = mult.Mul(b.poly)
					if len(mult.t) > 20000 {
						return false
					}
				}
			}
			base := newPoly(sort)
			base.addTerm((&Mono{}).withFactors(keep), t.c)
			nd = nd.Add(base.Mul(mult))
			if len(nd.t) > 40000 {
				return false
			}
		}
		D = nd
	}
	// ---- step 3: definitions of abstracted atoms (linear hypotheses  a == p  with a created by `abstract`)
	defs := map[string]*Poly{}
	for _, h := range st.hyps {
		if h.Op != "=" || len(h.Args) != 2 || h.Args[0].Sort != sort || !h.Args[1].IsConst() || h.Args[1].Val.Sign() != 0 || h.Args[0].Op != "poly" {
			continue
		}
		P := h.Args[0].P
		occ := map[string]int{}
		for _, t := range P.t {
			for _, f := range t.m.f {
				occ[f.atom.Key()]++
			}
		}
		for k, t := range P.t {
			if len(t.m.f) != 1 || t.m.f[0].exp.Cmp(big1) != 0 {
				continue
			}
			a := t.m.f[0].atom
			if occ[a.Key()] != 1 || !strings.Contains(a.Key(), "abs.") || defs[a.Key()] != nil {
				continue
			}
			cinv := new(big.Int).ModInverse(t.c, M)
			if cinv == nil {
				continue
			}
			rest := newPoly(sort)
			for k2, t2 := range P.t {
				if k2 != k {
					rest.t[k2] = t2
				}
			}
			// c*a + rest == 0  =>  a == -rest/c
			defs[a.Key()] = rest.Scale(new(big.Int).Neg(cinv))
		}
	}
	for iter := 0; iter < 6 && len(defs) > 0; iter++ {
		changed := false
		nd := newPoly(sort)
		for _, t := range D.t {
			acc := polyConst(sort, t.c)
			for _, f := range t.m.f {
				if d, ok := defs[f.atom.Key()]; ok && f.exp.IsInt64() && f.exp.Int64() <= 32 {
					changed = true
					for i := int64(0); i < f.exp.Int64(); i++ {
						acc = acc.Mul(d)
						if len(acc.t) > 40000 {
							return false
						}
					}
				} else {
					one := newPoly(sort)
					one.addTerm((&Mono{}).withFactors([]monoFactor{f}), big1)
					acc = acc.Mul(one)
				}
			}
			nd = nd.Add(acc)
			if len(nd.t) > 60000 {
				return false
			}
		}
		D = nd
		if !changed {
			break
		}
	}
	if len(D.t) > 0 && !reduce() {
		return false
	}
	if os.Getenv("VCGO_DEBUG_FIELD") != "" {
		fmt.Fprintf(os.Stderr, "[field] %d relations, %d inverse bases, %d definitions; residual polynomial has %d terms", len(rels), len(bases), len(defs), len(D.t))
		if len(D.t) > 0 && len(D.t) <= 12 {
			fmt.Fprintf(os.Stderr, ": %s", trunc(pretty(fromPoly(D), 4), 1500))
		}
		fmt.Fprintln(os.Stderr)
	}
	return len(D.t) == 0
}

// withFactors builds a monomial from (unsorted, possibly repeated) factors.
func (m *Mono) withFactors(fs []monoFactor) *Mono {
	r := &Mono{}
	for _, f := range fs {
		r = monoMul(r, &Mono{f: []monoFactor{f}})
	}
	return r
}
