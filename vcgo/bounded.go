package main

// Bounded stand-ins for functions the verifier cannot reach (trusted contracts over math/big and the
// cryptobyte.Builder continuation API).  A contract marked
//     boundedcheck <harness>
// is *not* proved: instead the real function is executed (a test injected with `go test -overlay`, nothing
// is written to the repository) on the finite grid of inputs of the named harness and every output is compared
// with the contract's postcondition, evaluated by an independent reference written in the harness.  The cases
// are reported separately in the evidence (coverage.bounded_checks) and never counted as discharged
// obligations; a failing case is a violation with a concrete replayable input.

import (
	"encoding/json"
	"fmt"
	"os"
	"os/exec"
	"path/filepath"
	"strings"
)

type boundedHarness struct {
	pkgDir string // directory of the package under test, relative to the module root
	bound  string // the stated bound
	src    string // test source (package clause included)
}

var boundedHarnesses = map[string]boundedHarness{
	// BuildASN1Signature(r, s): SEQUENCE { INTEGER r, INTEGER s } in DER, and it parses back.
	"der_sig_build": {
		pkgDir: "secec",
		bound:  "r and s range over 66 x 66 values: for each byte length 1..32 the smallest value (0x01 00..00) and the largest (0xff..ff, reduced below N when 32 bytes), plus 1 and N-1",
		src: `package secec

import (
	"bytes"
	"fmt"
	"math/big"
	"os"
	"testing"

	"gitlab.com/yawning/secp256k1-voi"
)

func verifRefDERInt(v *big.Int) []byte {
	b := v.Bytes()
	if len(b) == 0 {
		b = []byte{0}
	}
	if b[0]&0x80 != 0 {
		b = append([]byte{0}, b...)
	}
	if len(b) > 127 {
		panic("too long")
	}
	return append([]byte{0x02, byte(len(b))}, b...)
}

func TestVerifBoundedDERSigBuild(t *testing.T) {
	out, err := os.Create(os.Getenv("VERIF_BOUNDED_OUT"))
	if err != nil {
		t.Fatal(err)
	}
	defer out.Close()
	n, _ := new(big.Int).SetString("fffffffffffffffffffffffffffffffebaaedce6af48a03bbfd25e8cd0364141", 16)
	var vals []*big.Int
	for l := 1; l <= 32; l++ {
		lo := new(big.Int).Lsh(big.NewInt(1), uint(8*(l-1)))
		hi := new(big.Int).Sub(new(big.Int).Lsh(big.NewInt(1), uint(8*l)), big.NewInt(1))
		if hi.Cmp(n) >= 0 {
			hi = new(big.Int).Sub(n, big.NewInt(2))
		}
		vals = append(vals, lo, hi)
	}
	vals = append(vals, big.NewInt(1), new(big.Int).Sub(n, big.NewInt(1)))
	toScalar := func(v *big.Int) *secp256k1.Scalar {
		var b [32]byte
		v.FillBytes(b[:])
		s, err := secp256k1.NewScalarFromCanonicalBytes(&b)
		if err != nil {
			panic(err)
		}
		return s
	}
	for _, rv := range vals {
		for _, sv := range vals {
			r, s := toScalar(rv), toScalar(sv)
			got := BuildASN1Signature(r, s)
			body := append(verifRefDERInt(rv), verifRefDERInt(sv)...)
			want := append([]byte{0x30, byte(len(body))}, body...)
			ok := bytes.Equal(got, want)
			why := ""
			if !ok {
				why = fmt.Sprintf("got %x want %x", got, want)
			} else {
				r2, s2, err := ParseASN1Signature(got)
				if err != nil || r2.Equal(r) != 1 || s2.Equal(s) != 1 {
					ok, why = false, fmt.Sprintf("does not parse back: %v", err)
				}
			}
			st := "ok"
			if !ok {
				st = "FAIL"
			}
			fmt.Fprintf(out, "%s r=%x s=%x %s\n", st, rv, sv, why)
		}
	}
}
`},
}

func init() {
	// buildASN1PublicKey / (*PublicKey).ASN1Bytes: SubjectPublicKeyInfo { {id-ecPublicKey, secp256k1}, BIT STRING (uncompressed point) }
	boundedHarnesses["der_spki_build"] = boundedHarness{
		pkgDir: "secec",
		bound:  "public keys k*G for k in 1..64, 2^i for i in 0..255 and N-1..N-16 (336 keys)",
		src: `package secec

import (
	"bytes"
	"fmt"
	"math/big"
	"os"
	"testing"

	"gitlab.com/yawning/secp256k1-voi"
)

func TestVerifBoundedSPKIBuild(t *testing.T) {
	out, err := os.Create(os.Getenv("VERIF_BOUNDED_OUT"))
	if err != nil {
		t.Fatal(err)
	}
	defer out.Close()
	n, _ := new(big.Int).SetString("fffffffffffffffffffffffffffffffebaaedce6af48a03bbfd25e8cd0364141", 16)
	var ks []*big.Int
	for i := int64(1); i <= 64; i++ {
		ks = append(ks, big.NewInt(i))
	}
	for i := uint(0); i < 256; i++ {
		ks = append(ks, new(big.Int).Lsh(big.NewInt(1), i))
	}
	for i := int64(1); i <= 16; i++ {
		ks = append(ks, new(big.Int).Sub(n, big.NewInt(i)))
	}
	// RFC 5480 / SEC 1 C.3 prefix for an uncompressed secp256k1 key: SEQUENCE(86) { SEQUENCE(16) { OID 1.2.840.10045.2.1, OID 1.3.132.0.10 }, BIT STRING(66) 00 || point }
	prefix := []byte{0x30, 0x56, 0x30, 0x10, 0x06, 0x07, 0x2a, 0x86, 0x48, 0xce, 0x3d, 0x02, 0x01, 0x06, 0x05, 0x2b, 0x81, 0x04, 0x00, 0x0a, 0x03, 0x42, 0x00}
	for _, kv := range ks {
		var b [32]byte
		kv.FillBytes(b[:])
		sc, err := secp256k1.NewScalarFromCanonicalBytes(&b)
		if err != nil {
			panic(err)
		}
		priv, err := NewPrivateKeyFromScalar(sc)
		if err != nil {
			panic(err)
		}
		pub := priv.PublicKey()
		got := pub.ASN1Bytes()
		want := append(append([]byte{}, prefix...), pub.Bytes()...)
		ok, why := bytes.Equal(got, want), ""
		if !ok {
			why = fmt.Sprintf("got %x want %x", got, want)
		} else {
			back, err := ParseASN1PublicKey(got)
			if err != nil || !back.Equal(pub) {
				ok, why = false, fmt.Sprintf("does not parse back: %v", err)
			}
		}
		st := "ok"
		if !ok {
			st = "FAIL"
		}
		fmt.Fprintf(out, "%s k=%x %s\n", st, kv, why)
	}
}
`}
}

func init() {
	// MultiScalarMult / MultiScalarMultVartime for list lengths above the ones proved (4..8)
	boundedHarnesses["msm_lengths"] = boundedHarness{
		pkgDir: ".",
		bound:  "list lengths 4..40 (every length) with 15 input patterns each (random; a zero scalar; all scalars zero; an identity point; two equal points; P and -P with equal scalars; s and -s on equal points; receiver = last point; receiver = first point; all points the identity; all scalars N-1; the same Point object twice; short scalars of varying bit length; one-hot scalars 2^k; single-nibble scalars), and lengths 63..66, 95..97, 127..130, 255..257 with 5 patterns (random; a zero scalar; receiver = last point; two equal points; short scalars); both functions; deterministic inputs; results compared with the sum of ScalarMult results",
		src: `package secp256k1

import (
	"crypto/sha256"
	"encoding/binary"
	"fmt"
	"os"
	"testing"
)

func TestVerifBoundedMSMLengths(t *testing.T) {
	out, err := os.Create(os.Getenv("VERIF_BOUNDED_OUT"))
	if err != nil {
		t.Fatal(err)
	}
	defer out.Close()
	ctr := uint64(0)
	rndScalar := func() *Scalar {
		var b [8]byte
		ctr++
		binary.BigEndian.PutUint64(b[:], ctr)
		h := sha256.Sum256(b[:])
		s, _ := NewScalarFromBytes(&h)
		return s
	}
	rndPoint := func() *Point { return NewIdentityPoint().ScalarBaseMult(rndScalar()) }
	// a scalar of exactly the given bit length (1..255), otherwise random
	bitsScalar := func(bits int) *Scalar {
		var b [8]byte
		ctr++
		binary.BigEndian.PutUint64(b[:], ctr)
		h := sha256.Sum256(b[:])
		nb := (bits + 7) / 8
		for i := 0; i < 32-nb; i++ {
			h[i] = 0
		}
		top := uint(bits - 1) % 8
		h[32-nb] &= byte(1<<(top+1) - 1)
		h[32-nb] |= byte(1 << top)
		s, _ := NewScalarFromBytes(&h)
		return s
	}
	nMinus1 := NewScalar().Negate(NewScalar().One())
	var lens []int
	for n := 4; n <= 40; n++ {
		lens = append(lens, n)
	}
	lens = append(lens, 63, 64, 65, 66, 95, 96, 97, 127, 128, 129, 130, 255, 256, 257)
	for _, n := range lens {
		pats := []int{0, 1, 2, 3, 4, 5, 6, 7, 8, 9, 10, 11, 12, 13, 14}
		if n > 40 {
			pats = []int{0, 1, 7, 4, 12}
		}
		for _, pat := range pats {
			for seed := n % 3; seed <= n%3; seed++ {
				for fn := 0; fn < 2; fn++ {
					ss := make([]*Scalar, n)
					ps := make([]*Point, n)
					for i := range ss {
						ss[i], ps[i] = rndScalar(), rndPoint()
					}
					v := NewIdentityPoint()
					switch pat {
					case 1:
						ss[seed%n] = NewScalar()
					case 2:
						for i := range ss {
							ss[i] = NewScalar()
						}
					case 3:
						ps[1+seed%(n-1)] = NewIdentityPoint()
					case 4:
						ps[1] = NewPointFrom(ps[0])
					case 5:
						ps[1] = NewIdentityPoint().Negate(ps[0])
						ss[1] = NewScalarFrom(ss[0])
					case 6:
						ps[1] = NewPointFrom(ps[0])
						ss[1] = NewScalar().Negate(ss[0])
					case 7:
						v = ps[n-1]
					case 8:
						v = ps[0]
					case 9:
						for i := range ps {
							ps[i] = NewIdentityPoint()
						}
					case 10:
						for i := range ss {
							ss[i] = NewScalarFrom(nMinus1)
						}
					case 11:
						ps[2] = ps[0]
					case 12:
						// short scalars: the longest one has a bit length that runs through every residue mod 8 as n
						// varies (the most significant window is a high nibble, a low nibble, a byte boundary ...)
						for i := range ss {
							ss[i] = bitsScalar(1 + (n*3+i*11)%(9+(n*7)%120))
						}
					case 13:
						// one-hot scalars 2^k
						for i := range ss {
							k := (n*5 + i*29) % 255
							var b [32]byte
							b[31-k/8] = 1 << (uint(k) % 8)
							ss[i], _ = NewScalarFromBytes(&b)
						}
					case 14:
						// single-nibble scalars 0..15
						for i := range ss {
							var b [32]byte
							b[31] = byte((n + i*7) % 16)
							ss[i], _ = NewScalarFromBytes(&b)
						}
					}
					want := NewIdentityPoint()
					for i := range ss {
						want.Add(want, NewIdentityPoint().ScalarMult(ss[i], ps[i]))
					}
					sCopy := make([]*Scalar, n)
					pCopy := make([]*Point, n)
					for i := range ss {
						sCopy[i], pCopy[i] = NewScalarFrom(ss[i]), NewPointFrom(ps[i])
					}
					var got *Point
					name := "MultiScalarMult"
					if fn == 0 {
						got = v.MultiScalarMult(ss, ps)
					} else {
						name = "MultiScalarMultVartime"
						got = v.MultiScalarMultVartime(ss, ps)
					}
					ok, why := got == v && got.Equal(want) == 1, ""
					if !ok {
						why = fmt.Sprintf("got %x want %x", got.CompressedBytes(), want.CompressedBytes())
					}
					for i := range ss {
						if ss[i].Equal(sCopy[i]) != 1 || (ps[i] != v && ps[i].Equal(pCopy[i]) != 1) {
							ok, why = false, fmt.Sprintf("input %d modified", i)
						}
					}
					st := "ok"
					if !ok {
						st = "FAIL"
					}
					fmt.Fprintf(out, "%s %s n=%d pattern=%d seed=%d %s\n", st, name, n, pat, seed, why)
				}
			}
		}
	}
}
`}
}

type boundedResult struct {
	Harness  string   `json:"harness"`
	Function string   `json:"function"`
	Bound    string   `json:"bound"`
	Cases    int      `json:"cases"`
	Failed   int      `json:"failed"`
	Samples  []string `json:"samples"`
	Failures []string `json:"failures,omitempty"`
	Error    string   `json:"error,omitempty"`
}

// runBounded executes one harness against the working tree.
func runBounded(repo, fnKey, name string) *boundedResult {
	h, ok := boundedHarnesses[name]
	res := &boundedResult{Harness: name, Function: fnKey}
	if !ok {
		res.Error = "unknown bounded harness " + name
		return res
	}
	res.Bound = h.bound
	tmp, err := os.MkdirTemp("", "vcgo-bounded-")
	if err != nil {
		res.Error = err.Error()
		return res
	}
	defer os.RemoveAll(tmp)
	testFile := filepath.Join(tmp, "zz_verif_bounded_test.go")
	_ = os.WriteFile(testFile, []byte(h.src), 0o644)
	ov := map[string]interface{}{"Replace": map[string]string{filepath.Join(repo, h.pkgDir, "zz_verif_bounded_test.go"): testFile}}
	ovb, _ := json.Marshal(ov)
	ovFile := filepath.Join(tmp, "ov.json")
	_ = os.WriteFile(ovFile, ovb, 0o644)
	out := filepath.Join(tmp, "out.txt")
	cmd := exec.Command("go", "test", "-overlay", ovFile, "-vet=off", "-count=1", "-timeout", "300s", "-run", "^TestVerifBounded", ".")
	cmd.Dir = filepath.Join(repo, h.pkgDir)
	cmd.Env = append(os.Environ(), "GOFLAGS=-mod=mod", "GOPROXY=off", "GOSUMDB=off", "GOTOOLCHAIN=local", "VERIF_BOUNDED_OUT="+out)
	if b, err := cmd.CombinedOutput(); err != nil {
		res.Error = fmt.Sprintf("harness did not run: %v: %s", err, trunc(string(b), 600))
		return res
	}
	data, err := os.ReadFile(out)
	if err != nil {
		res.Error = err.Error()
		return res
	}
	for _, ln := range strings.Split(strings.TrimSpace(string(data)), "\n") {
		if ln == "" {
			continue
		}
		res.Cases++
		if strings.HasPrefix(ln, "FAIL") {
			res.Failed++
			if len(res.Failures) < 5 {
				res.Failures = append(res.Failures, ln)
			}
		} else if len(res.Samples) < 3 {
			res.Samples = append(res.Samples, ln)
		}
	}
	if res.Cases == 0 {
		res.Error = "harness produced no cases"
	}
	return res
}
