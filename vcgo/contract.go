package main

// Contract files: structured `//@` comments in /repo/<pkg>/verif_contracts.go (build tag verif,
// comment-only) and assumed contracts / lemmas in /verif/spec/*.spec (same syntax without the
// comment marker).

import (
	"fmt"
	"go/ast"
	"go/parser"
	"os"
	"path/filepath"
	"strconv"
	"strings"
)

type Clause struct {
	Kind     string // requires ensures panics modifies invariant assert using ...
	Text     string
	Name     string   // label (assert@, lemma use)
	Props    []string // property ids served
	Expr     ast.Expr // parsed (for expression clauses)
	Exprs    []ast.Expr
	Loop     int
	Line     string
	After    string // cut/assert position: variable name
	AfterN   int
	Guard    ast.Expr   // cut/assert: the clause applies only where this condition is known to hold
	From     []string   // assert: labels of earlier clauses whose facts suffice (proof hint: a small query is tried first)
	Abstract []ast.Expr // cut/assert: objects whose contents are abstracted (fresh) once the lemma is proved
}

type Contract struct {
	Func          string // key: package-relative SSA name, e.g. (*Element).Multiply
	Pkg           string
	Props         []string
	Mode          string // int | bv
	Requires      []*Clause
	Ensures       []*Clause
	Proves        []*Clause // proved at the function's exits but not exported to callers
	Panics        []*Clause // panics iff (disjunction)
	Modifies      []*Clause
	Loops         map[int]*LoopSpec
	Asserts       []*Clause // cut points
	Splits        []*Clause
	Using         []*Clause
	Inline        bool
	Helper        bool
	Trusted       string // non-empty: assumed contract (reason)
	Aliasing      string // "none" disables alias partitions, "all" default
	NIA           bool
	Pure          bool
	CT            bool              // the function is under a secret-independence contract (C17)
	Labels        map[string]string // C17 secrecy labels: name -> secret|public
	Declass       []*Clause
	NoFrame       bool
	Timeout       int
	BoundedChecks []string        // harness names of bounded execution stand-ins (trusted contracts)
	Bounded       []string        // stated bounds (reported in the evidence)
	Options       map[string]bool // engine options for the verification of this function (e.g. digits)
	Source        string
	Results       []string // result names override
	Fresh         []*Clause
	Shares        []*Clause // internals of a fresh result that are deliberately not fresh (ownership handed over by the caller)
	Hints         []*Clause
	NoAlias       [][]string      // groups of parameters that callers must not alias with each other
	Weak          map[string]bool // parameters whose type invariants are neither assumed nor required
}

type LoopSpec struct {
	Invariants []*Clause
	Modifies   []*Clause
	Decreases  *Clause
}

type TypeSpec struct {
	Name   string
	Pkg    string
	Inv    []*Clause
	Public map[string]bool // fields whose contents are public even inside a secret object ("*" = the whole type)
}

type Lemma struct {
	Name     string
	Params   []LemmaParam
	Requires []*Clause
	Ensures  []*Clause
	Proof    string // smt | nia | ring | ground | lean:<file> | assumed:<citation>
	Source   string
}

type LemmaParam struct {
	Name string
	Sort Sort
}

type GlobalSpec struct {
	Name  string
	Pkg   string
	Facts []*Clause
	Proof string
}

type Define struct {
	Name   string
	Params []LemmaParam
	Body   ast.Expr
	Text   string
}

type SpecDB struct {
	Defines   map[string]*Define
	Contracts map[string]*Contract // key pkgpath + "::" + func
	Types     map[string]*TypeSpec
	Lemmas    map[string]*Lemma
	Globals   map[string]*GlobalSpec
	Files     []string
}

var sortByName = map[string]Sort{"Int": SInt, "Fp": SFp, "Fn": SFn, "Pt": SPt, "Bool": SBool}

func newSpecDB() *SpecDB {
	return &SpecDB{Defines: map[string]*Define{}, Contracts: map[string]*Contract{}, Types: map[string]*TypeSpec{}, Lemmas: map[string]*Lemma{}, Globals: map[string]*GlobalSpec{}}
}

// splitTopLevel splits s at the first top-level occurrence of op (outside parentheses/brackets).
func splitTopLevel(s, op string) (string, string, bool) {
	depth := 0
	for i := 0; i+len(op) <= len(s); i++ {
		switch s[i] {
		case '(', '[', '{':
			depth++
		case ')', ']', '}':
			depth--
		}
		if depth == 0 && strings.HasPrefix(s[i:], op) {
			// make sure "<==>" is not mistaken for "==>"
			if op == "==>" && i > 0 && s[i-1] == '<' {
				continue
			}
			return strings.TrimSpace(s[:i]), strings.TrimSpace(s[i+len(op):]), true
		}
	}
	return s, "", false
}

// parseSpecExpr parses the contract expression language: Go expression syntax plus
// `a ==> b` (right associative, lowest precedence) and `a <==> b`.
func parseSpecExpr(s string) (ast.Expr, error) {
	s = strings.TrimSpace(s)
	// strip one pair of outer parentheses when they enclose the whole expression
	for len(s) >= 2 && s[0] == '(' && s[len(s)-1] == ')' {
		depth, wraps := 0, true
		for i := 0; i < len(s); i++ {
			switch s[i] {
			case '(':
				depth++
			case ')':
				depth--
				if depth == 0 && i != len(s)-1 {
					wraps = false
				}
			}
			if !wraps {
				break
			}
		}
		if !wraps || !(strings.Contains(s, "==>")) {
			break
		}
		s = strings.TrimSpace(s[1 : len(s)-1])
	}
	if l, r, ok := splitTopLevel(s, "<==>"); ok {
		le, err := parseSpecExpr(l)
		if err != nil {
			return nil, err
		}
		re, err := parseSpecExpr(r)
		if err != nil {
			return nil, err
		}
		return &ast.CallExpr{Fun: ast.NewIdent("iff"), Args: []ast.Expr{le, re}}, nil
	}
	if l, r, ok := splitTopLevel(s, "==>"); ok {
		le, err := parseSpecExpr(l)
		if err != nil {
			return nil, err
		}
		re, err := parseSpecExpr(r)
		if err != nil {
			return nil, err
		}
		return &ast.CallExpr{Fun: ast.NewIdent("implies"), Args: []ast.Expr{le, re}}, nil
	}
	e, err := parser.ParseExpr(s)
	if err != nil {
		return nil, fmt.Errorf("spec expression %q: %v", s, err)
	}
	return e, nil
}

func splitList(s string) []string {
	var out []string
	depth := 0
	start := 0
	for i := 0; i < len(s); i++ {
		switch s[i] {
		case '(', '[', '{':
			depth++
		case ')', ']', '}':
			depth--
		case ',':
			if depth == 0 {
				out = append(out, strings.TrimSpace(s[start:i]))
				start = i + 1
			}
		}
	}
	if strings.TrimSpace(s[start:]) != "" {
		out = append(out, strings.TrimSpace(s[start:]))
	}
	return out
}

func (db *SpecDB) loadFile(path string, pkgPath string, marker bool) error {
	data, err := os.ReadFile(path)
	if err != nil {
		return err
	}
	db.Files = append(db.Files, path)
	var cur *Contract
	var curType *TypeSpec
	var curLemma *Lemma
	var curGlobal *GlobalSpec
	reset := func() { cur, curType, curLemma, curGlobal = nil, nil, nil, nil }
	lines := strings.Split(string(data), "\n")
	// join continuation lines (ending with backslash)
	for ln := 0; ln < len(lines); ln++ {
		raw := lines[ln]
		line := strings.TrimSpace(raw)
		if marker {
			if !strings.HasPrefix(line, "//@") {
				continue
			}
			line = strings.TrimSpace(strings.TrimPrefix(line, "//@"))
		} else {
			if strings.HasPrefix(line, "#") {
				continue
			}
		}
		for strings.HasSuffix(line, "\\") && ln+1 < len(lines) {
			ln++
			nx := strings.TrimSpace(lines[ln])
			if marker {
				nx = strings.TrimSpace(strings.TrimPrefix(nx, "//@"))
			}
			line = strings.TrimSuffix(line, "\\") + " " + nx
		}
		if line == "" {
			continue
		}
		// strip trailing comment
		if i := strings.Index(line, " // "); i >= 0 {
			line = strings.TrimSpace(line[:i])
		}
		where := fmt.Sprintf("%s:%d", path, ln+1)
		kw, rest, _ := strings.Cut(line, " ")
		rest = strings.TrimSpace(rest)
		switch kw {
		case "package":
			pkgPath = rest
			reset()
			continue
		case "func":
			reset()
			cur = &Contract{Func: rest, Pkg: pkgPath, Loops: map[int]*LoopSpec{}, Source: where, Labels: map[string]string{}}
			db.Contracts[pkgPath+"::"+rest] = cur
			continue
		case "type":
			reset()
			curType = &TypeSpec{Name: rest, Pkg: pkgPath}
			db.Types[pkgPath+"."+rest] = curType
			continue
		case "lemma":
			reset()
			name, params, _ := strings.Cut(rest, "(")
			params = strings.TrimSuffix(strings.TrimSpace(params), ")")
			lm := &Lemma{Name: strings.TrimSpace(name), Source: where}
			for _, p := range splitList(params) {
				f := strings.Fields(p)
				if len(f) != 2 {
					return fmt.Errorf("%s: bad lemma parameter %q", where, p)
				}
				so, ok := sortByName[f[1]]
				if !ok {
					return fmt.Errorf("%s: bad sort %q", where, f[1])
				}
				lm.Params = append(lm.Params, LemmaParam{f[0], so})
			}
			curLemma = lm
			db.Lemmas[lm.Name] = lm
			continue
		case "define":
			// define name(params) = expr
			reset()
			head, body, ok := strings.Cut(rest, "=")
			if !ok {
				return fmt.Errorf("%s: define needs '='", where)
			}
			name, params, _ := strings.Cut(head, "(")
			params = strings.TrimSuffix(strings.TrimSpace(params), ")")
			d := &Define{Name: strings.TrimSpace(name), Text: strings.TrimSpace(body)}
			for _, p := range splitList(params) {
				f := strings.Fields(p)
				if len(f) != 2 {
					return fmt.Errorf("%s: bad define parameter %q", where, p)
				}
				so, ok := sortByName[f[1]]
				if !ok {
					return fmt.Errorf("%s: bad sort %q", where, f[1])
				}
				d.Params = append(d.Params, LemmaParam{f[0], so})
			}
			be, err := parseSpecExpr(d.Text)
			if err != nil {
				return fmt.Errorf("%s: %v", where, err)
			}
			d.Body = be
			db.Defines[d.Name] = d
			continue
		case "global":
			reset()
			curGlobal = &GlobalSpec{Name: rest, Pkg: pkgPath}
			db.Globals[pkgPath+"."+rest] = curGlobal
			continue
		}
		mkExprClause := func(kind, text string) (*Clause, error) {
			c := &Clause{Kind: kind, Text: text, Line: where}
			// optional label "name: expr"
			e, err := parseSpecExpr(text)
			if err != nil {
				return nil, fmt.Errorf("%s: %v", where, err)
			}
			c.Expr = e
			return c, nil
		}
		switch {
		case curLemma != nil:
			switch kw {
			case "requires", "ensures":
				c, err := mkExprClause(kw, rest)
				if err != nil {
					return err
				}
				if kw == "requires" {
					curLemma.Requires = append(curLemma.Requires, c)
				} else {
					curLemma.Ensures = append(curLemma.Ensures, c)
				}
			case "proof":
				curLemma.Proof = rest
			default:
				return fmt.Errorf("%s: unknown lemma clause %q", where, kw)
			}
		case curType != nil:
			switch kw {
			case "inv":
				c, err := mkExprClause(kw, rest)
				if err != nil {
					return err
				}
				curType.Inv = append(curType.Inv, c)
			case "public":
				if curType.Public == nil {
					curType.Public = map[string]bool{}
				}
				for _, n := range splitList(rest) {
					curType.Public[n] = true
				}
			default:
				return fmt.Errorf("%s: unknown type clause %q", where, kw)
			}
		case curGlobal != nil:
			switch kw {
			case "fact":
				c, err := mkExprClause(kw, rest)
				if err != nil {
					return err
				}
				curGlobal.Facts = append(curGlobal.Facts, c)
			case "proof":
				curGlobal.Proof = rest
			default:
				return fmt.Errorf("%s: unknown global clause %q", where, kw)
			}
		case cur != nil:
			switch kw {
			case "props":
				cur.Props = strings.Fields(rest)
			case "mode":
				cur.Mode = rest
			case "nia":
				cur.NIA = true
			case "inline":
				cur.Inline = true
			case "helper":
				// a small unexported helper whose contract only serves its callers: if the function disappears
				// (inlined by a refactoring) the contract is dropped with a note and the callers are verified
				// against whatever replaced the call
				cur.Helper = true
			case "pure":
				cur.Pure = true
			case "noframe":
				cur.NoFrame = true
			case "trusted":
				cur.Trusted = rest
				if cur.Trusted == "" {
					cur.Trusted = "assumed"
				}
			case "unverified":
				cur.Trusted = "NOT YET VERIFIED: " + rest
			case "aliasing":
				cur.Aliasing = rest
			case "timeout":
				cur.Timeout, _ = strconv.Atoi(rest)
			case "boundedcheck":
				cur.BoundedChecks = append(cur.BoundedChecks, strings.Fields(rest)...)
			case "bounded":
				// a stated bound: the contract is verified only within it (reported as bounded, not as proved)
				cur.Bounded = append(cur.Bounded, rest)
			case "option":
				if cur.Options == nil {
					cur.Options = map[string]bool{}
				}
				for _, o := range strings.Fields(rest) {
					cur.Options[o] = true
				}
			case "results":
				cur.Results = strings.Fields(rest)
			case "requires", "ensures", "panics", "proves":
				c, err := mkExprClause(kw, rest)
				if err != nil {
					return err
				}
				switch kw {
				case "proves":
					cur.Proves = append(cur.Proves, c)
				case "requires":
					cur.Requires = append(cur.Requires, c)
				case "ensures":
					cur.Ensures = append(cur.Ensures, c)
				case "panics":
					cur.Panics = append(cur.Panics, c)
				}
			case "modifies", "fresh", "shares":
				c := &Clause{Kind: kw, Text: rest, Line: where}
				for _, it := range splitList(rest) {
					e, err := parseSpecExpr(it)
					if err != nil {
						return fmt.Errorf("%s: %v", where, err)
					}
					c.Exprs = append(c.Exprs, e)
				}
				switch kw {
				case "modifies":
					cur.Modifies = append(cur.Modifies, c)
				case "shares":
					cur.Shares = append(cur.Shares, c)
				default:
					cur.Fresh = append(cur.Fresh, c)
				}
			case "loop":
				f := strings.SplitN(rest, " ", 3)
				if len(f) < 3 {
					return fmt.Errorf("%s: loop clause needs: loop N kind expr", where)
				}
				n, err := strconv.Atoi(f[0])
				if err != nil {
					return fmt.Errorf("%s: bad loop ordinal", where)
				}
				ls := cur.Loops[n]
				if ls == nil {
					ls = &LoopSpec{}
					cur.Loops[n] = ls
				}
				switch f[1] {
				case "invariant", "decreases":
					c, err := mkExprClause(f[1], f[2])
					if err != nil {
						return err
					}
					c.Loop = n
					if f[1] == "invariant" {
						ls.Invariants = append(ls.Invariants, c)
					} else {
						ls.Decreases = c
					}
				case "modifies":
					c := &Clause{Kind: "modifies", Text: f[2], Line: where, Loop: n}
					for _, it := range splitList(f[2]) {
						e, err := parseSpecExpr(it)
						if err != nil {
							return fmt.Errorf("%s: %v", where, err)
						}
						c.Exprs = append(c.Exprs, e)
					}
					ls.Modifies = append(ls.Modifies, c)
				default:
					return fmt.Errorf("%s: unknown loop clause %q", where, f[1])
				}
			case "assert", "cut", "apply", "fork", "reach":
				// cut <name>: expr
				f := strings.SplitN(rest, " ", 2)
				if len(f) < 2 {
					return fmt.Errorf("%s: assert needs: assert <name>: expr", where)
				}
				name, ex, ok := strings.Cut(rest, ":")
				if !ok {
					return fmt.Errorf("%s: assert needs a label", where)
				}
				c, err := mkExprClause("assert", strings.TrimSpace(ex))
				if err != nil {
					return err
				}
				c.Name = strings.TrimSpace(name)
				// optional proof hint: label[@pos] from(l1, l2): the facts introduced by these earlier clauses suffice
				if head, fr, ok := strings.Cut(c.Name, " from("); ok {
					c.Name = strings.TrimSpace(head)
					lst, tail, _ := strings.Cut(fr, ")")
					for _, l := range splitList(lst) {
						c.From = append(c.From, strings.TrimSpace(l))
					}
					c.Name += tail
				}
				// optional abstraction list: label[@pos] abstract(x, y)
				if head, abs, ok := strings.Cut(c.Name, " abstract("); ok {
					c.Name = strings.TrimSpace(head)
					for _, a := range splitList(strings.TrimSuffix(strings.TrimSpace(abs), ")")) {
						ax, err := parseSpecExpr(a)
						if err != nil {
							return fmt.Errorf("%s: abstract(%s): %v", where, a, err)
						}
						c.Abstract = append(c.Abstract, ax)
					}
				}
				// optional guard: label[@pos] if <cond> -- the clause applies only on paths where cond is known to hold
				if head, g, ok := strings.Cut(c.Name, " if "); ok {
					c.Name = strings.TrimSpace(head)
					gx, err := parseSpecExpr(strings.TrimSpace(g))
					if err != nil {
						return fmt.Errorf("%s: guard %q: %v", where, g, err)
					}
					c.Guard = gx
				}
				// optional position: label@var#k fires once `var` has been assigned k times
				if lbl, pos, ok := strings.Cut(c.Name, "@"); ok {
					c.Name = lbl
					v, k, _ := strings.Cut(pos, "#")
					c.After = v
					c.AfterN = 1
					if n, err := strconv.Atoi(k); err == nil {
						c.AfterN = n
					}
				}
				c.Kind = kw
				for _, prev := range cur.Asserts {
					if prev.Name == c.Name {
						return fmt.Errorf("%s: label %q is used twice in the contract of %s", where, c.Name, cur.Func)
					}
				}
				cur.Asserts = append(cur.Asserts, c)
			case "using":
				c, err := mkExprClause("using", rest)
				if err != nil {
					return err
				}
				cur.Using = append(cur.Using, c)
			case "split":
				// split <expr> in lo..hi [else]
				c := &Clause{Kind: "split", Text: rest, Line: where}
				cur.Splits = append(cur.Splits, c)
			case "noalias":
				cur.NoAlias = append(cur.NoAlias, splitList(rest))
			case "weak":
				if cur.Weak == nil {
					cur.Weak = map[string]bool{}
				}
				for _, n := range splitList(rest) {
					cur.Weak[n] = true
				}
			case "ct":
				cur.CT = true
			case "secret", "public":
				for _, n := range splitList(rest) {
					cur.Labels[n] = kw
				}
			case "declassify":
				c := &Clause{Kind: kw, Text: rest, Line: where}
				cur.Declass = append(cur.Declass, c)
			case "hint":
				c := &Clause{Kind: kw, Text: rest, Line: where}
				cur.Hints = append(cur.Hints, c)
			default:
				return fmt.Errorf("%s: unknown contract clause %q", where, kw)
			}
		default:
			return fmt.Errorf("%s: clause %q outside of func/type/lemma", where, kw)
		}
	}
	return nil
}

// loadSpecs reads every verif_contracts.go under repo and every *.spec under specDir.
func loadSpecs(repo, modPath, specDir string) (*SpecDB, error) {
	db := newSpecDB()
	err := filepath.Walk(repo, func(p string, info os.FileInfo, err error) error {
		if err != nil {
			return nil
		}
		if info.IsDir() && (info.Name() == ".git" || info.Name() == "testdata") {
			return filepath.SkipDir
		}
		if !info.IsDir() && info.Name() == "verif_contracts.go" {
			rel, _ := filepath.Rel(repo, filepath.Dir(p))
			pkg := modPath
			if rel != "." {
				pkg = modPath + "/" + filepath.ToSlash(rel)
			}
			return db.loadFile(p, pkg, true)
		}
		return nil
	})
	if err != nil {
		return nil, err
	}
	specs, _ := filepath.Glob(filepath.Join(specDir, "*.spec"))
	for _, s := range specs {
		if err := db.loadFile(s, "", false); err != nil {
			return nil, err
		}
	}
	return db, nil
}
