package main

// Precomputed generator tables (C05).
//
// The two table initialisers take no input, so their result is a constant.  It is obtained by *executing the
// real initialisers* (a test injected with `go test -overlay`, nothing is written to the repository) and every
// entry is then checked against this engine's own affine elliptic-curve arithmetic over math/big:
//   huge[i][j] = (j+1) * 256^i * G      (32 x 255 entries)        odd[i][j] = (j+1) * 16 * 256^i * G   (32 x 15)
// and against the embedded file internal/gentable/point_mul_table.bin.  Each entry is one ground obligation.
// Verified entries are then available to the symbolic executor as concrete cells, and an affine point with
// constant coordinates that is a verified table entry is rewritten to the multiple of G it equals.

import (
	"encoding/binary"
	"encoding/json"
	"fmt"
	"go/types"
	"math/big"
	"os"
	"os/exec"
	"path/filepath"
	"strings"
)

type tableData struct {
	huge   [32][255][2][4]uint64
	odd    [32][15][2][4]uint64
	loaded bool
	err    error
	known  map[string]*big.Int // "x,y" (affine, decimal) -> k with (x,y) = k*G
	obls   []*Obligation
}

const dumpTest = `package secp256k1

import (
	"encoding/binary"
	"os"
	"testing"
	"unsafe"
)

func TestVerifDumpTables(t *testing.T) {
	f, err := os.Create(os.Getenv("VERIF_TABLE_OUT"))
	if err != nil {
		t.Fatal(err)
	}
	defer f.Close()
	w := func(p unsafe.Pointer) {
		l := (*[4]uint64)(p)
		var b [32]byte
		for i := 0; i < 4; i++ {
			binary.LittleEndian.PutUint64(b[8*i:], l[i])
		}
		f.Write(b[:])
	}
	for i := range generatorHugeAffineTable {
		for j := range generatorHugeAffineTable[i] {
			w(unsafe.Pointer(&generatorHugeAffineTable[i][j].x))
			w(unsafe.Pointer(&generatorHugeAffineTable[i][j].y))
		}
	}
	for i := range generatorOddAffineTable {
		for j := range generatorOddAffineTable[i] {
			w(unsafe.Pointer(&generatorOddAffineTable[i][j].x))
			w(unsafe.Pointer(&generatorOddAffineTable[i][j].y))
		}
	}
	if generatorHugeAffineTableBytes != nil {
		f.Write([]byte{1})
	} else {
		f.Write([]byte{0})
	}
}
`

// affine EC arithmetic of the engine (independent oracle)
type affPt struct{ x, y *big.Int } // nil x = infinity

func ecAdd(a, b affPt) affPt {
	if a.x == nil {
		return b
	}
	if b.x == nil {
		return a
	}
	p := bigP
	var lam *big.Int
	if a.x.Cmp(b.x) == 0 {
		if new(big.Int).Mod(new(big.Int).Add(a.y, b.y), p).Sign() == 0 {
			return affPt{}
		}
		num := new(big.Int).Mul(big.NewInt(3), new(big.Int).Mul(a.x, a.x))
		den := new(big.Int).ModInverse(new(big.Int).Mod(new(big.Int).Mul(big2, a.y), p), p)
		lam = new(big.Int).Mod(new(big.Int).Mul(num, den), p)
	} else {
		num := new(big.Int).Sub(b.y, a.y)
		den := new(big.Int).ModInverse(new(big.Int).Mod(new(big.Int).Sub(b.x, a.x), p), p)
		lam = new(big.Int).Mod(new(big.Int).Mul(num, den), p)
	}
	x3 := new(big.Int).Mod(new(big.Int).Sub(new(big.Int).Sub(new(big.Int).Mul(lam, lam), a.x), b.x), p)
	y3 := new(big.Int).Mod(new(big.Int).Sub(new(big.Int).Mul(lam, new(big.Int).Sub(a.x, x3)), a.y), p)
	return affPt{x3, y3}
}

func ecMulSmall(k int, a affPt) affPt {
	r := affPt{}
	for i := 0; i < k; i++ {
		r = ecAdd(r, a)
	}
	return r
}

func limbsToInt(l [4]uint64) *big.Int {
	r := new(big.Int)
	for i := 3; i >= 0; i-- {
		r.Lsh(r, 64)
		r.Or(r, new(big.Int).SetUint64(l[i]))
	}
	return r
}

func (e *Engine) loadTables(repo string) *tableData {
	if e.tables != nil && e.tables.loaded {
		return e.tables
	}
	td := &tableData{known: map[string]*big.Int{}}
	e.tables = td
	td.loaded = true
	tmp, err := os.MkdirTemp("", "vcgo-tables-")
	if err != nil {
		td.err = err
		return td
	}
	defer os.RemoveAll(tmp)
	testFile := filepath.Join(tmp, "zz_verif_dump_test.go")
	_ = os.WriteFile(testFile, []byte(dumpTest), 0o644)
	ov := map[string]interface{}{"Replace": map[string]string{filepath.Join(repo, "zz_verif_dump_test.go"): testFile}}
	ovb, _ := json.Marshal(ov)
	ovFile := filepath.Join(tmp, "ov.json")
	_ = os.WriteFile(ovFile, ovb, 0o644)
	out := filepath.Join(tmp, "tables.bin")
	cmd := exec.Command("go", "test", "-overlay", ovFile, "-vet=off", "-count=1", "-timeout", "120s", "-run", "^TestVerifDumpTables$", ".")
	cmd.Dir = repo
	cmd.Env = append(os.Environ(), "GOFLAGS=-mod=mod", "GOPROXY=off", "GOSUMDB=off", "GOTOOLCHAIN=local", "VERIF_TABLE_OUT="+out)
	if b, err := cmd.CombinedOutput(); err != nil {
		td.err = fmt.Errorf("table dump failed: %v: %s", err, trunc(string(b), 400))
		return td
	}
	data, err := os.ReadFile(out)
	if err != nil || len(data) != (32*255+32*15)*64+1 {
		td.err = fmt.Errorf("table dump has unexpected size %d", len(data))
		return td
	}
	rd := func(off int) [4]uint64 {
		var l [4]uint64
		for i := 0; i < 4; i++ {
			l[i] = binary.LittleEndian.Uint64(data[off+8*i:])
		}
		return l
	}
	off := 0
	for i := 0; i < 32; i++ {
		for j := 0; j < 255; j++ {
			td.huge[i][j][0] = rd(off)
			td.huge[i][j][1] = rd(off + 32)
			off += 64
		}
	}
	for i := 0; i < 32; i++ {
		for j := 0; j < 15; j++ {
			td.odd[i][j][0] = rd(off)
			td.odd[i][j][1] = rd(off + 32)
			off += 64
		}
	}
	bytesCleared := data[off] == 0
	// embedded file
	bin, berr := os.ReadFile(filepath.Join(repo, "internal/gentable/point_mul_table.bin"))
	rinv := new(big.Int).ModInverse(bigR, bigP)
	fromMont := func(l [4]uint64) *big.Int { return new(big.Int).Mod(new(big.Int).Mul(limbsToInt(l), rinv), bigP) }
	gx, gy := specConsts["GX"], specConsts["GY"]
	addObl := func(name, text string, ok bool, detail string) {
		st := "unsat"
		if !ok {
			st = "sat"
		}
		td.obls = append(td.obls, &Obligation{Name: name, Kind: "ground", Func: "tables", Goal: mkBool(ok), Text: text,
			Result: &SolveResult{Status: st, Solver: "ground", Backend: "ground", Output: detail}})
	}
	base := affPt{new(big.Int).Set(gx), new(big.Int).Set(gy)} // 256^i * G
	k256 := big.NewInt(1)
	for i := 0; i < 32; i++ {
		cur := affPt{}
		for j := 0; j < 255; j++ {
			cur = ecAdd(cur, base) // (j+1)*256^i*G
			x, y := fromMont(td.huge[i][j][0]), fromMont(td.huge[i][j][1])
			ok := limbsToInt(td.huge[i][j][0]).Cmp(bigP) < 0 && limbsToInt(td.huge[i][j][1]).Cmp(bigP) < 0 && cur.x != nil && x.Cmp(cur.x) == 0 && y.Cmp(cur.y) == 0
			if berr == nil && ok {
				bo := (i*255 + j) * 64
				if bo+64 > len(bin) || new(big.Int).SetBytes(bin[bo:bo+32]).Cmp(x) != 0 || new(big.Int).SetBytes(bin[bo+32:bo+64]).Cmp(y) != 0 {
					ok = false
				}
			}
			k := new(big.Int).Mul(big.NewInt(int64(j+1)), k256)
			if ok {
				td.known[x.String()+","+y.String()] = k
			}
			addObl(fmt.Sprintf("tables.huge[%d][%d]", i, j), fmt.Sprintf("generatorHugeAffineTable[%d][%d] == %d*256^%d*G, limbs < P, equals the embedded file entry", i, j, j+1, i), ok,
				fmt.Sprintf("observed x=%s y=%s", x.Text(16), y.Text(16)))
			if j%16 == 15 && j/16 < 15 {
				jj := j / 16
				ox, oy := fromMont(td.odd[i][jj][0]), fromMont(td.odd[i][jj][1])
				ook := limbsToInt(td.odd[i][jj][0]).Cmp(bigP) < 0 && limbsToInt(td.odd[i][jj][1]).Cmp(bigP) < 0 && ox.Cmp(cur.x) == 0 && oy.Cmp(cur.y) == 0
				addObl(fmt.Sprintf("tables.odd[%d][%d]", i, jj), fmt.Sprintf("generatorOddAffineTable[%d][%d] == %d*16*256^%d*G, limbs < P", i, jj, jj+1, i), ook,
					fmt.Sprintf("observed x=%s y=%s", ox.Text(16), oy.Text(16)))
			}
		}
		// next base: 256 * base = cur (255*base) + base
		base = ecAdd(cur, base)
		k256 = new(big.Int).Mul(k256, big.NewInt(256))
	}
	if berr != nil {
		addObl("tables.file", "internal/gentable/point_mul_table.bin is readable", false, berr.Error())
	} else {
		addObl("tables.file.size", "the embedded file has exactly 32*255*64 bytes", len(bin) == 32*255*64, fmt.Sprint(len(bin)))
	}
	addObl("tables.bytes-cleared", "generatorHugeAffineTableBytes is nil after initialisation", bytesCleared, "")
	return td
}

// tableProvider supplies concrete limbs for the lazily materialised table regions.
func (e *Engine) tableCell(r *Region, path []int) (Value, bool) {
	if e.tables == nil || !e.tables.loaded || e.tables.err != nil {
		return nil, false
	}
	// path: [i][j] . (x|y) . (m) [limb]   with Element = struct{_ ; m}
	if len(path) != 5 {
		return nil, false
	}
	i, j, c, limb := path[0], path[1], path[2], path[4]
	var v uint64
	switch {
	case strings.Contains(r.name, "Huge") || r.tblKind == "huge":
		if i >= 32 || j >= 255 || c > 1 || limb > 3 {
			return nil, false
		}
		v = e.tables.huge[i][j][c][limb]
	case r.tblKind == "odd":
		if i >= 32 || j >= 15 || c > 1 || limb > 3 {
			return nil, false
		}
		v = e.tables.odd[i][j][c][limb]
	default:
		return nil, false
	}
	return mkUint64(v), true
}

// affConst: an affine point with constant coordinates that is a ground-verified table entry (or G itself).
func (e *Engine) affConst(x, y *Term) *Term {
	if !x.IsConst() || !y.IsConst() {
		return nil
	}
	if x.Val.Cmp(specConsts["GX"]) == 0 && y.Val.Cmp(specConsts["GY"]) == 0 {
		return mkApp("G", SPt)
	}
	if e.tables != nil {
		if k, ok := e.tables.known[x.Val.String()+","+y.Val.String()]; ok {
			return mkSmul(mkRingConst(SFn, k), mkApp("G", SPt))
		}
	}
	return nil
}

var _ = types.Typ
