package main

// Selection of the functions a property check covers, evidence files, violation reports.

import (
	"bufio"
	"encoding/json"
	"fmt"
	"go/ast"
	"go/types"
	"os"
	"path/filepath"
	"sort"
	"strconv"
	"strings"

	"golang.org/x/tools/go/ssa"
)

type propertyInfo struct {
	ID      string `json:"id"`
	Title   string `json:"title"`
	Anchors struct {
		Files []string `json:"files"`
	} `json:"anchors"`
}

func loadProperties(path string) (map[string]*propertyInfo, error) {
	f, err := os.Open(path)
	if err != nil {
		return nil, err
	}
	defer f.Close()
	out := map[string]*propertyInfo{}
	sc := bufio.NewScanner(f)
	sc.Buffer(make([]byte, 1<<20), 1<<24)
	for sc.Scan() {
		line := strings.TrimSpace(sc.Text())
		if line == "" {
			continue
		}
		var p propertyInfo
		if err := json.Unmarshal([]byte(line), &p); err != nil {
			return nil, err
		}
		out[p.ID] = &p
	}
	return out, sc.Err()
}

// staticCallees returns the repository functions a function may call (static callees, closures).
func staticCallees(fn *ssa.Function) []*ssa.Function {
	var out []*ssa.Function
	seen := map[*ssa.Function]bool{}
	add := func(f *ssa.Function) {
		if f != nil && !seen[f] {
			seen[f] = true
			out = append(out, f)
		}
	}
	for _, b := range fn.Blocks {
		for _, in := range b.Instrs {
			switch x := in.(type) {
			case ssa.CallInstruction:
				add(x.Common().StaticCallee())
			case *ssa.MakeClosure:
				if f, ok := x.Fn.(*ssa.Function); ok {
					add(f)
				}
			}
			for _, op := range in.Operands(nil) {
				if f, ok := (*op).(*ssa.Function); ok {
					add(f)
				}
			}
		}
	}
	for _, af := range fn.AnonFuncs {
		add(af)
	}
	return out
}

type selection struct {
	keys     []string // contracts to verify
	reliesOn []string // contracted callees verified under other properties
	keepers  []string // accessors / converting constructors of the key objects the property relies on (subset of keys)
}

// selectFor computes the set of contracted functions checked for a property: the contracts tagged
// with the property plus every contracted function in the property's anchor files that is reachable
// from them; with all=true the whole reachable cone.
func selectFor(prop string, info *propertyInfo, db *SpecDB, fns map[string]*ssa.Function, lr *loadResult, repo string, all bool) selection {
	keyOf := map[*ssa.Function]string{}
	for k, f := range fns {
		keyOf[f] = k
	}
	anchor := map[string]bool{}
	if info != nil {
		for _, f := range info.Anchors.Files {
			anchor[filepath.Clean(f)] = true
		}
	}
	fileOf := func(f *ssa.Function) string {
		pos := lr.prog.Fset.Position(f.Pos())
		rel, err := filepath.Rel(repo, pos.Filename)
		if err != nil {
			return pos.Filename
		}
		return filepath.Clean(rel)
	}
	roots := map[string]bool{}
	for k, c := range db.Contracts {
		for _, p := range c.Props {
			if p == prop {
				roots[k] = true
			}
		}
		if prop == "C17" && c.CT {
			roots[k] = true
		}
	}
	if prop == "C17" {
		var s selection
		for k, c := range db.Contracts {
			if c.CT {
				s.keys = append(s.keys, k)
			}
		}
		sort.Strings(s.keys)
		return s
	}
	{
		// every contract declared for a function of the anchor files is checked, whatever its property tags: a
		// change in an anchored file must be noticed by the property's check
		for k, f := range fns {
			if c, ok := db.Contracts[k]; ok && !c.Inline && c.Trusted == "" && anchor[fileOf(f)] {
				roots[k] = true
			}
		}
	}
	if prop == "C20" {
		// the property quantifies over the whole public API used concurrently ("sign, verify, recover, derive shared
		// secrets, multiply, encode and hash to curve"): every contracted exported function or method of the public
		// packages is a root, whatever file it lives in (round 5, after seed C20-8: a sync.Pool of scratch tables in
		// MultiScalarMultVartime, a file outside the anchors that nothing else calls)
		for k, f := range fns {
			c, ok := db.Contracts[k]
			if !ok || c.Inline || c.Trusted != "" || f.Pkg == nil || strings.Contains(f.Pkg.Pkg.Path(), "/internal/") {
				continue
			}
			if ast.IsExported(f.Name()) && !strings.HasPrefix(f.Name(), "verifLemma") {
				roots[k] = true
			}
		}
	}
	keepers := map[string]bool{}
	reach := map[*ssa.Function]bool{}
	var visit func(f *ssa.Function)
	visit = func(f *ssa.Function) {
		if reach[f] {
			return
		}
		reach[f] = true
		for _, c := range staticCallees(f) {
			if _, ok := keyOf[c]; ok {
				visit(c)
			}
		}
	}
	for k := range roots {
		if f, ok := fns[k]; ok {
			visit(f)
		}
	}
	sel := map[string]bool{}
	rel := map[string]bool{}
	for k := range roots {
		sel[k] = true
	}
	for f := range reach {
		k := keyOf[f]
		c, ok := db.Contracts[k]
		if !ok || c.Inline || c.Trusted != "" {
			continue
		}
		if all || anchor[fileOf(f)] {
			sel[k] = true
		} else if !sel[k] {
			rel[k] = true
		}
	}
	// invariant providers: the selected functions assume the invariants (and the ownership of the internals) of the
	// pointer-holding object types they receive -- key objects.  Those invariants are established by the
	// constructors, so every contracted function that returns such an object is checked with the property as well,
	// whatever file it lives in (a constructor that keeps the caller's buffer breaks signing / verification /
	// ECDH only through a later sequence of calls, and is noticed only by the constructor's own obligations).
	{
		owning := func(t types.Type) *types.Named {
			if p, ok := t.Underlying().(*types.Pointer); ok {
				t = p.Elem()
			}
			n, ok := t.(*types.Named)
			if !ok || n.Obj().Pkg() == nil || !strings.HasPrefix(n.Obj().Pkg().Path(), modPath) {
				return nil
			}
			st, ok := n.Underlying().(*types.Struct)
			if !ok {
				return nil
			}
			for i := 0; i < st.NumFields(); i++ {
				switch st.Field(i).Type().Underlying().(type) {
				case *types.Pointer, *types.Slice, *types.Interface, *types.Map:
					return n
				}
			}
			return nil
		}
		used := map[*types.Named]bool{}
		for k := range sel {
			f, ok := fns[k]
			if !ok || f.Signature == nil {
				continue
			}
			sig := f.Signature
			if r := sig.Recv(); r != nil {
				if n := owning(r.Type()); n != nil {
					used[n] = true
				}
			}
			for i := 0; i < sig.Params().Len(); i++ {
				if n := owning(sig.Params().At(i).Type()); n != nil {
					used[n] = true
				}
			}
		}
		// invariant keepers (round 5, after seed C08-8: `PublicKey.Point()` handing out the internal point, which a
		// constructor of another package then negates in place): every small contracted function that *receives* such
		// an object and returns a pointer / slice -- the accessors and the converting constructors -- is checked with
		// the property too; its `fresh` / frame obligations are what keeps the object the selected functions rely on
		// immutable.  "Small" (at most keeperMaxInstrs SSA instructions, VCGO_KEEPER_MAX) keeps Sign / Verify of one
		// property out of the check of another; a leak in a large function is still found by that function's own
		// property and by C18.
		keeperMax := 80
		if v, err := strconv.Atoi(os.Getenv("VCGO_KEEPER_MAX")); err == nil {
			keeperMax = v
		}
		for k, f := range fns {
			c, ok := db.Contracts[k]
			if !ok || c.Inline || c.Trusted != "" || sel[k] || f.Signature == nil || f.Blocks == nil {
				continue
			}
			receives := false
			if r := f.Signature.Recv(); r != nil && owning(r.Type()) != nil && used[owning(r.Type())] {
				receives = true
			}
			for i := 0; i < f.Signature.Params().Len(); i++ {
				if n := owning(f.Signature.Params().At(i).Type()); n != nil && used[n] {
					receives = true
				}
			}
			if !receives {
				continue
			}
			handsOut := false
			for i := 0; i < f.Signature.Results().Len(); i++ {
				switch f.Signature.Results().At(i).Type().Underlying().(type) {
				case *types.Pointer, *types.Slice:
					handsOut = true
				}
			}
			n := 0
			for _, b := range f.Blocks {
				n += len(b.Instrs)
			}
			if handsOut && (keeperMax == 0 || n <= keeperMax) {
				keepers[k] = true
			}
		}
		for k, f := range fns {
			c, ok := db.Contracts[k]
			if !ok || c.Inline || c.Trusted != "" || sel[k] || f.Signature == nil {
				continue
			}
			res := f.Signature.Results()
			for i := 0; i < res.Len(); i++ {
				if n := owning(res.At(i).Type()); n != nil && used[n] {
					sel[k] = true
					delete(rel, k)
					for _, cal := range staticCallees(f) {
						if ck, ok := keyOf[cal]; ok && !sel[ck] {
							if cc, ok := db.Contracts[ck]; ok && !cc.Inline && cc.Trusted == "" {
								rel[ck] = true
							}
						}
					}
					break
				}
			}
		}
	}
	var s selection
	for k := range sel {
		s.keys = append(s.keys, k)
	}
	for k := range keepers {
		if !sel[k] {
			sel[k] = true
			delete(rel, k)
			s.keys = append(s.keys, k)
			s.keepers = append(s.keepers, k)
		}
	}
	sort.Strings(s.keepers)
	for k := range rel {
		if !sel[k] {
			s.reliesOn = append(s.reliesOn, k)
		}
	}
	sort.Strings(s.keys)
	sort.Strings(s.reliesOn)
	return s
}

type evidenceFile struct {
	PropertyID  string                 `json:"property_id"`
	Tier        string                 `json:"tier"`
	Seed        int64                  `json:"seed"`
	Level       string                 `json:"level"`
	Coverage    map[string]interface{} `json:"coverage"`
	Assumptions []string               `json:"assumptions"`
	WallS       float64                `json:"wall_s"`
	Violations  int                    `json:"violations"`
}

func shortKeyName(k string) string {
	return strings.TrimPrefix(strings.TrimPrefix(k, modPath), "/")
}

func writeEvidence(path string, prop string, cfg runConfig, res *runResult, sel selection, violations []violation, extra map[string]interface{}) error {
	byBackend := map[string]int{}
	discharged := 0
	total := 0
	covers := 0
	var samples []map[string]interface{}
	var slow []map[string]interface{}
	for _, o := range res.obls {
		if o.Kind == "cover" {
			covers++
			continue
		}
		total++
		if o.ok() {
			discharged++
			byBackend[o.Result.Solver]++
		}
		if o.Result != nil && o.Result.Time > 3 {
			slow = append(slow, map[string]interface{}{"obligation": o.Name, "solver": o.Result.Solver, "time_s": o.Result.Time})
		}
	}
	// a few obligations written out
	picked := 0
	for _, o := range res.obls {
		if o.Kind == "cover" || o.Result == nil || o.Result.Solver == "syntactic" {
			continue
		}
		samples = append(samples, map[string]interface{}{"obligation": o.Name, "kind": o.Kind, "statement": o.Text, "status": o.Result.Status, "backend": o.Result.Solver, "time_s": o.Result.Time, "smt_file": o.Result.File})
		picked++
		if picked >= 6 {
			break
		}
	}
	if len(samples) == 0 {
		for _, o := range res.obls {
			if o.Result != nil {
				samples = append(samples, map[string]interface{}{"obligation": o.Name, "kind": o.Kind, "statement": o.Text, "status": o.Result.Status, "backend": o.Result.Solver})
				break
			}
		}
	}
	e := res.engine
	var funcs, inl, trusted, intr, lemmasAssumed []string
	for _, k := range res.funcs {
		funcs = append(funcs, shortKeyName(k))
	}
	for k := range e.inlined {
		inl = append(inl, k)
	}
	sort.Strings(inl)
	for k, why := range e.trusted {
		trusted = append(trusted, k+" ("+why+")")
	}
	sort.Strings(trusted)
	var intrVerified []string
	for k := range e.usedIntr {
		d := intrinsicDoc[k]
		// an engine-level model that is restated as a contract in spec/deps.spec is verified against the
		// standard library's source (under the properties the contract names), not assumed
		if c, ok := e.db.Contracts[intrinsicContractKey(k)]; ok && c.Trusted == "" {
			note := " [model restated in spec/deps.spec and verified against the GOROOT source under " + strings.Join(c.Props, ",") + "]"
			if len(c.Bounded) > 0 {
				// verified for a stated range of inputs only: outside it the model remains an assumption
				note = " [model restated in spec/deps.spec and verified against the GOROOT source under " + strings.Join(c.Props, ",") + " ONLY WITHIN THE BOUND " + strings.Join(c.Bounded, "; ") + " -- assumed otherwise]"
			}
			intrVerified = append(intrVerified, k+": "+d+note)
			continue
		}
		intr = append(intr, k+": "+d)
	}
	sort.Strings(intr)
	sort.Strings(intrVerified)
	lemmasAssumed = append(lemmasAssumed, res.assumed...)
	var relies []string
	for _, k := range sel.reliesOn {
		c := e.db.Contracts[k]
		relies = append(relies, shortKeyName(k)+" [proved under "+strings.Join(c.Props, ",")+"]")
	}
	tb := []string{
		"go/ssa (x/tools v0.29.0) translation of the working tree and this engine's SSA semantics (amd64: int = 64 bit)",
		"SMT solvers z3 5.1.0, z3 4.8.12, cvc5 1.0 (raced; first definitive answer)",
		"polynomial / module normal forms of the engine (terms over Z, Z/P, Z/N, and the abstract group)",
	}
	for _, t := range intr {
		tb = append(tb, "assumed dependency contract: "+t)
	}
	for _, t := range intrVerified {
		tb = append(tb, "engine-level model of a dependency routine, verified elsewhere: "+t)
	}
	for _, t := range trusted {
		tb = append(tb, "trusted contract: "+t)
	}
	for _, t := range lemmasAssumed {
		tb = append(tb, "assumed "+t)
	}
	cov := map[string]interface{}{
		"dropped_helper_contracts": res.droppedHelpers,
		"obligations":              total,
		"discharged":               discharged,
		"checker_cmd":              fmt.Sprintf("/verif/check %s %s", prop, cfg.tier),
		"trusted_base":             tb,
		"functions_under_contract": funcs,
		"inlined_helpers":          inl,
		"relies_on":                relies,
		"invariant_keepers":        shortNames(sel.keepers),
		"by_backend":               byBackend,
		"solver_time_s":            res.solverSec,
		"vacuity_guards":           map[string]interface{}{"covers_checked": covers},
		"samples":                  samples,
		"slow_obligations":         slow,
		"build_tags":               cfg.tags,
		"engine_errors":            res.errors,
		"bounded":                  boundedOf(res),
	}
	cov["exported_without_contract"] = res.uncontracted
	if len(res.bounded) > 0 {
		cov["bounded_checks"] = res.bounded
		b := cov["bounded"].([]string)
		for _, r := range res.bounded {
			b = append(b, fmt.Sprintf("%s: contract trusted, stand-in by execution on %d grid inputs (%s)", r.Function, r.Cases, r.Bound))
		}
		cov["bounded"] = b
	}
	for k, v := range extra {
		cov[k] = v
	}
	assumptions := []string{
		"P and N are prime; E(F_P) with the chord-tangent law is an abelian group of order N (mathematics, not re-proved)",
		"machine integers are modelled exactly (wrap-around explicit); `int` is 64 bit",
		"Go memory model: arrays contiguous; package initialisation happens before use",
	}
	assumptions = append(assumptions, lemmasAssumed...)
	ev := evidenceFile{PropertyID: prop, Tier: cfg.tier, Seed: cfg.seed, Level: "proof", Coverage: cov, Assumptions: assumptions, WallS: res.wall, Violations: len(violations)}
	data, err := json.MarshalIndent(ev, "", " ")
	if err != nil {
		return err
	}
	_ = os.MkdirAll(filepath.Dir(path), 0o755)
	tmp := path + ".tmp"
	if err := os.WriteFile(tmp, data, 0o644); err != nil {
		return err
	}
	return os.Rename(tmp, path)
}

type violation struct {
	Obligation string            `json:"obligation"`
	Kind       string            `json:"kind"`
	Statement  string            `json:"statement"`
	Status     string            `json:"solver_status"`
	Solver     string            `json:"solver"`
	Output     string            `json:"solver_output"`
	Model      map[string]string `json:"model,omitempty"`
	SMTFile    string            `json:"smt_file"`
	Replay     *replayResult     `json:"replay,omitempty"`
	File       string            `json:"-"`
}

type replayResult struct {
	Attempted bool     `json:"attempted"`
	Failing   bool     `json:"failing_input_found"`
	Input     string   `json:"input,omitempty"`
	Observed  string   `json:"observed,omitempty"`
	Expected  string   `json:"expected,omitempty"`
	Log       []string `json:"log,omitempty"`
	TestFile  string   `json:"test_file,omitempty"`
}

func writeViolation(dir, prop string, v *violation) string {
	d := filepath.Join(dir, prop)
	_ = os.MkdirAll(d, 0o755)
	fn := filepath.Join(d, sanitizeFile(v.Obligation)+".json")
	out := v.Output
	if len(out) > 20000 {
		out = out[:20000] + "...[truncated]"
	}
	v.Output = out
	data, _ := json.MarshalIndent(v, "", " ")
	_ = os.WriteFile(fn, data, 0o644)
	v.File = fn
	return fn
}

// boundedOf lists the stated bounds of the contracts verified in this run.
func boundedOf(res *runResult) []string {
	out := []string{}
	for _, k := range res.funcs {
		if c, ok := res.engine.db.Contracts[k]; ok {
			for _, b := range c.Bounded {
				out = append(out, shortKeyName(k)+": "+b)
			}
		}
	}
	return out
}

// uncontractedExported lists the exported functions / methods declared in the property's anchor files that
// have no contract (so the property is not decided for them by this check).
func uncontractedExported(info *propertyInfo, db *SpecDB, fns map[string]*ssa.Function, lr *loadResult, repo string) []string {
	out := []string{}
	if info == nil {
		return out
	}
	anchor := map[string]bool{}
	for _, f := range info.Anchors.Files {
		anchor[filepath.Clean(f)] = true
	}
	for k, f := range fns {
		if f.Synthetic != "" || f.Parent() != nil || f.Pos() == 0 {
			continue
		}
		pos := lr.prog.Fset.Position(f.Pos())
		rel, err := filepath.Rel(repo, pos.Filename)
		if err != nil || !anchor[filepath.Clean(rel)] {
			continue
		}
		if strings.HasSuffix(pos.Filename, "_test.go") || strings.Contains(filepath.Base(pos.Filename), "verif_") {
			continue
		}
		name := f.Name()
		if name == "" || name[0] < 'A' || name[0] > 'Z' {
			continue
		}
		if recv := f.Signature.Recv(); recv != nil {
			t := recv.Type().String()
			if i := strings.LastIndex(t, "."); i >= 0 {
				t = t[i+1:]
			}
			if t == "" || t[0] < 'A' || t[0] > 'Z' {
				continue
			}
		}
		if _, ok := db.Contracts[k]; !ok {
			out = append(out, shortKeyName(k))
		}
	}
	sort.Strings(out)
	return out
}

// globalStoreScan: every store in the module whose address is (derived from) a package-level variable, outside
// package initialisation.  For C20: package-level state is never written after initialisation.
func globalStoreScan(lr *loadResult, modPath string) (scanned int, stores []string) {
	rootGlobal := func(v ssa.Value) *ssa.Global {
		for i := 0; i < 64; i++ {
			switch x := v.(type) {
			case *ssa.Global:
				return x
			case *ssa.FieldAddr:
				v = x.X
			case *ssa.IndexAddr:
				v = x.X
			case *ssa.Slice:
				v = x.X
			case *ssa.ChangeType:
				v = x.X
			case *ssa.Convert:
				v = x.X
			default:
				return nil
			}
		}
		return nil
	}
	isInit := func(f *ssa.Function) bool {
		for g := f; g != nil; g = g.Parent() {
			if g.Name() == "init" || strings.HasPrefix(g.Name(), "init#") || g.Synthetic == "package initializer" {
				return true
			}
		}
		return false
	}
	var visit func(f *ssa.Function)
	seen := map[*ssa.Function]bool{}
	visit = func(f *ssa.Function) {
		if seen[f] {
			return
		}
		seen[f] = true
		scanned++
		init := isInit(f)
		for _, b := range f.Blocks {
			for _, in := range b.Instrs {
				if st, ok := in.(*ssa.Store); ok && !init {
					if g := rootGlobal(st.Addr); g != nil {
						stores = append(stores, fmt.Sprintf("%s stores to %s", f.String(), g.String()))
					}
				}
				// package-level maps and channels (and what they hold) are shared mutable state of a kind the
				// frame analysis does not model: any use outside initialisation is reported
				if !init {
					for _, op := range in.Operands(nil) {
						if g, ok := (*op).(*ssa.Global); ok && g.Pkg != nil && strings.HasPrefix(g.Pkg.Pkg.Path(), modPath) {
							if pt, ok := g.Type().(*types.Pointer); ok {
								switch pt.Elem().Underlying().(type) {
								case *types.Map, *types.Chan:
									stores = append(stores, fmt.Sprintf("%s uses the package-level %s %s outside initialisation (shared mutable state: its entries and the objects they hold are not covered by the read-only frame argument)", f.String(), pt.Elem().Underlying().String(), g.String()))
								default:
									// a package-level object that contains a sync / sync/atomic type (Pool, Map, Mutex, Once,
									// atomic.Value ...) is shared mutable state by construction: objects parked in it travel
									// between goroutines outside every frame condition
									if n := syncTypeIn(pt.Elem(), 0); n != "" {
										stores = append(stores, fmt.Sprintf("%s uses the package-level variable %s, which holds a %s, outside initialisation (shared mutable state that the read-only frame argument does not cover)", f.String(), g.String(), n))
									}
								}
							}
						}
					}
				}
				// slices of a global array handed to copy/append-style writers are covered by the frame checks
			}
		}
		for _, a := range f.AnonFuncs {
			visit(a)
		}
	}
	for _, p := range lr.prog.AllPackages() {
		if !strings.HasPrefix(p.Pkg.Path(), modPath) {
			continue
		}
		for _, m := range p.Members {
			switch x := m.(type) {
			case *ssa.Function:
				if pos := lr.prog.Fset.Position(x.Pos()); strings.HasSuffix(pos.Filename, "_test.go") {
					continue
				}
				visit(x)
			case *ssa.Type:
				for _, t := range []types.Type{x.Type(), types.NewPointer(x.Type())} {
					ms := lr.prog.MethodSets.MethodSet(t)
					for i := 0; i < ms.Len(); i++ {
						if f := lr.prog.MethodValue(ms.At(i)); f != nil && f.Pkg == p {
							visit(f)
						}
					}
				}
			}
		}
	}
	sort.Strings(stores)
	return scanned, stores
}

// intrinsicContractKey maps the ssa name of a modelled routine ("pkg.Func", "(pkg.T).M", "(*pkg.T).M") to its
// contract key in the spec database ("pkg::Func", "pkg::(T).M", "pkg::(*T).M").
func intrinsicContractKey(name string) string {
	if strings.HasPrefix(name, "(") {
		end := strings.Index(name, ")")
		if end < 0 {
			return name
		}
		recv, meth := name[1:end], name[end+1:]
		star := ""
		if strings.HasPrefix(recv, "*") {
			star, recv = "*", recv[1:]
		}
		dot := strings.LastIndex(recv, ".")
		if dot < 0 {
			return name
		}
		return recv[:dot] + "::(" + star + recv[dot+1:] + ")" + meth
	}
	dot := strings.LastIndex(name, ".")
	if dot < 0 {
		return name
	}
	return name[:dot] + "::" + name[dot+1:]
}

func shortNames(ks []string) []string {
	out := []string{}
	for _, k := range ks {
		out = append(out, shortKeyName(k))
	}
	return out
}

// syncTypeIn returns the name of a type of package sync or sync/atomic contained in t (through structs, arrays and
// pointers, to a small depth), or "".
func syncTypeIn(t types.Type, depth int) string {
	if depth > 4 {
		return ""
	}
	if n, ok := t.(*types.Named); ok && n.Obj().Pkg() != nil {
		if p := n.Obj().Pkg().Path(); p == "sync" || p == "sync/atomic" {
			return p + "." + n.Obj().Name()
		}
	}
	switch u := t.Underlying().(type) {
	case *types.Struct:
		for i := 0; i < u.NumFields(); i++ {
			if s := syncTypeIn(u.Field(i).Type(), depth+1); s != "" {
				return s
			}
		}
	case *types.Array:
		return syncTypeIn(u.Elem(), depth+1)
	case *types.Pointer:
		return syncTypeIn(u.Elem(), depth+1)
	case *types.Slice:
		return syncTypeIn(u.Elem(), depth+1)
	}
	return ""
}
