package main

// Renamed locals.  About forty contracts mention locals of the function body by name (loop invariants, ghost
// statements positioned `@name`).  A pure rename of such a local is a harmless edit, but it used to be reported as an
// engine error ("unknown identifier").  spec/locals.baseline.json records, for every contracted function of the
// unchanged tree, a *definition signature* of each named local that does not depend on the name (k-th call of callee
// F / result i of it, k-th local of type T, k-th phi of type T, ...).  When a contract of the current tree mentions a
// baseline name that no longer exists, and exactly one current local has the signature the baseline recorded for it,
// the old name is bound as an alias of the new one.  This cannot make a wrong program verify: aliases only decide
// which value a ghost clause talks about, and every ghost clause (assert / cut / invariant) is proved before it is
// used; lemma applications and case splits are sound for any arguments.

import (
	"encoding/json"
	"fmt"
	"go/types"
	"os"
	"path/filepath"
	"sort"

	"golang.org/x/tools/go/ssa"
)

// localSigs returns name -> signature for the named locals of fn (first binding of each name).
func localSigs(fn *ssa.Function) map[string]string {
	ord := map[string]int{}
	sigOf := map[ssa.Value]string{}
	var sig func(v ssa.Value) string
	count := func(k string) string {
		ord[k]++
		return fmt.Sprintf("%s#%d", k, ord[k])
	}
	rel := func(t types.Type) string {
		return types.TypeString(t, func(p *types.Package) string { return p.Name() })
	}
	// number the defining instructions in block order first, so that signatures do not depend on where the
	// debug references sit
	for _, b := range fn.Blocks {
		for _, in := range b.Instrs {
			v, ok := in.(ssa.Value)
			if !ok {
				continue
			}
			switch x := in.(type) {
			case *ssa.Alloc:
				sigOf[v] = count("alloc:" + rel(x.Type()))
			case *ssa.Call:
				name := "dynamic"
				if c := x.Call.StaticCallee(); c != nil {
					name = c.RelString(fn.Pkg.Pkg)
				} else if x.Call.IsInvoke() {
					name = "invoke:" + x.Call.Method.Name()
				} else if bi, ok := x.Call.Value.(*ssa.Builtin); ok {
					name = "builtin:" + bi.Name()
				}
				sigOf[v] = count("call:" + name)
			case *ssa.Phi:
				sigOf[v] = count("phi:" + rel(x.Type()))
			case *ssa.Extract:
				// resolved below (needs the tuple's signature)
			default:
				sigOf[v] = count(fmt.Sprintf("%T:%s", in, rel(v.Type())))
			}
		}
	}
	sig = func(v ssa.Value) string {
		if s, ok := sigOf[v]; ok {
			return s
		}
		switch x := v.(type) {
		case *ssa.Extract:
			return fmt.Sprintf("extract:%d:%s", x.Index, sig(x.Tuple))
		case *ssa.Parameter:
			for i, p := range fn.Params {
				if p == x {
					return fmt.Sprintf("param#%d", i)
				}
			}
		case *ssa.Const:
			return "const:" + x.String()
		}
		return ""
	}
	out := map[string]string{}
	for _, b := range fn.Blocks {
		for _, in := range b.Instrs {
			d, ok := in.(*ssa.DebugRef)
			if !ok {
				continue
			}
			id, ok := d.Expr.(interface{ String() string })
			if !ok {
				continue
			}
			name := id.String()
			if _, seen := out[name]; seen {
				continue
			}
			if s := sig(d.X); s != "" {
				out[name] = s
			}
		}
	}
	for _, b := range fn.Blocks {
		for _, in := range b.Instrs {
			if ph, ok := in.(*ssa.Phi); ok && ph.Comment != "" {
				if _, seen := out[ph.Comment]; !seen {
					out[ph.Comment] = sig(ph)
				}
			}
		}
	}
	return out
}

type localsBaseline map[string]map[string]string // function key -> local name -> signature

func loadLocalsBaseline(specDir string) localsBaseline {
	b := localsBaseline{}
	data, err := os.ReadFile(filepath.Join(specDir, "locals.baseline.json"))
	if err != nil {
		return b
	}
	_ = json.Unmarshal(data, &b)
	return b
}

// localAliases: current name -> baseline names that denote the same local (only for baseline names that no longer
// exist in the function and whose signature identifies exactly one current local with a new name).
func (e *Engine) localAliases(key string, fn *ssa.Function) map[string][]string {
	base := e.localsBase[key]
	if len(base) == 0 {
		return nil
	}
	cur := localSigs(fn)
	bySig := map[string][]string{}
	for n, s := range cur {
		bySig[s] = append(bySig[s], n)
	}
	out := map[string][]string{}
	var olds []string
	for old := range base {
		olds = append(olds, old)
	}
	sort.Strings(olds)
	for _, old := range olds {
		if _, still := cur[old]; still {
			continue
		}
		cands := bySig[base[old]]
		if len(cands) != 1 {
			continue
		}
		if _, wasThere := base[cands[0]]; wasThere {
			continue // the candidate is an old name itself, not a renamed local
		}
		out[cands[0]] = append(out[cands[0]], old)
	}
	return out
}
