package main

// Calls: builtins, intrinsics (stdlib functions modelled by the engine), contracted calls,
// inlined calls, closures, interface method dispatch; loop headers and cut points.

import (
	"fmt"
	"go/ast"
	"go/constant"
	"go/token"
	"go/types"
	"math/big"
	"os"
	"strings"

	"golang.org/x/tools/go/ssa"
)

func (e *Engine) funcKey(fn *ssa.Function) (pkg, rel string) {
	if fn.Pkg != nil {
		return fn.Pkg.Pkg.Path(), fn.RelString(fn.Pkg.Pkg)
	}
	if fn.Parent() != nil {
		p, _ := e.funcKey(fn.Parent())
		return p, fn.Name()
	}
	// method of instantiated / external type
	if r := fn.Signature.Recv(); r != nil {
		if nt := namedOf(r.Type()); nt != nil && nt.Obj().Pkg() != nil {
			return nt.Obj().Pkg().Path(), fn.RelString(nt.Obj().Pkg())
		}
	}
	return "", fn.String()
}

func namedOf(t types.Type) *types.Named {
	if p, ok := t.(*types.Pointer); ok {
		t = p.Elem()
	}
	n, _ := t.(*types.Named)
	return n
}

func (e *Engine) contractFor(fn *ssa.Function) *Contract {
	pkg, rel := e.funcKey(fn)
	if c, ok := e.db.Contracts[pkg+"::"+rel]; ok {
		return c
	}
	return nil
}

func (e *Engine) isRepoFunc(fn *ssa.Function) bool {
	pkg, _ := e.funcKey(fn)
	return strings.HasPrefix(pkg, e.modPath)
}

// execCall handles a call instruction.  When cont is true the caller continues with the next
// instruction in the same state; otherwise exits holds the complete list of exits of all continuations.
func (e *Engine) execCall(st *State, fr *Frame, in *ssa.Call, b, prev *ssa.BasicBlock, idx int) (exits []Exit, cont bool) {
	cc := in.Common()
	var args []Value
	for _, a := range cc.Args {
		args = append(args, e.get(fr, a))
	}
	// continuation helper for forking calls
	continueWith := func(outs []callOutcome) []Exit {
		var all []Exit
		for i, o := range outs {
			if o.panics {
				all = append(all, Exit{kind: "panic", st: o.st, msg: o.msg})
				continue
			}
			f2 := fr
			if i < len(outs)-1 {
				f2 = fr.fork()
			}
			f2.vals[in] = o.result
			if o.st.infeasible() {
				if os.Getenv("VCGO_TRACE") != "" {
					fmt.Fprintf(os.Stderr, "[trace] %s: outcome %d/%d of %s dropped (infeasible)\n", e.curFunc, i+1, len(outs), in.String())
				}
				continue
			}
			all = append(all, e.execFrom(o.st, f2, b, prev, idx+1)...)
		}
		return all
	}

	if cc.IsInvoke() {
		iv, ok := e.get(fr, cc.Value).(*IfaceVal)
		if !ok {
			e.fail("invoke on non-interface value")
		}
		if iv.dyn != nil {
			m := e.prog.LookupMethod(iv.dyn, cc.Method.Pkg(), cc.Method.Name())
			if m == nil {
				e.fail("cannot resolve method %s on %s", cc.Method.Name(), iv.dyn)
			}
			return continueWith(e.callFunction(st, fr, m, append([]Value{iv.val}, args...), in)), false
		}
		name := "invoke " + types.TypeString(cc.Value.Type(), nil) + "." + cc.Method.Name()
		if h, ok := intrinsics[name]; ok {
			fr.vals[in] = h(e, st, fr, append([]Value{iv}, args...), in)
			return nil, true
		}
		// a method of a foreign dynamic type: it cannot reach the private state of this module; scalar
		// results are arbitrary
		if res := cc.Signature().Results(); res.Len() == 1 && isScalarType(res.At(0).Type()) {
			e.usedIntrinsic("foreign interface method")
			fr.vals[in] = foreignResult(st, iv, cc.Method.Name(), res.At(0).Type(), true)
			return nil, true
		}
		e.fail("no model for %s", name)
	}
	switch callee := cc.Value.(type) {
	case *ssa.Builtin:
		fr.vals[in] = e.builtin(st, fr, callee.Name(), args, in)
		return nil, true
	case *ssa.Function:
		return continueWith(e.callFunction(st, fr, callee, args, in)), false
	case *ssa.MakeClosure:
		fv := e.get(fr, callee).(*FuncVal)
		return continueWith(e.callClosure(st, fr, fv, args, in)), false
	default:
		if fv, ok := e.get(fr, cc.Value).(*FuncVal); ok && fv.fn != nil {
			if fn, ok := fv.fn.(*ssa.Function); ok {
				if len(fv.bind) > 0 {
					return continueWith(e.callClosure(st, fr, fv, args, in)), false
				}
				return continueWith(e.callFunction(st, fr, fn, args, in)), false
			}
		}
	}
	e.fail("unsupported dynamic call %s in %s", in, fr.fn)
	return nil, false
}

// forkVal lets an intrinsic return several outcomes (path split).
type forkVal struct{ outs []callOutcome }

type callOutcome struct {
	st     *State
	result Value
	panics bool
	msg    string
}

func resultOf(fn *ssa.Function, res []Value) Value {
	switch fn.Signature.Results().Len() {
	case 0:
		return nil
	case 1:
		return res[0]
	}
	return &TupleVal{elems: res}
}

func (e *Engine) callClosure(st *State, fr *Frame, fv *FuncVal, args []Value, in *ssa.Call) []callOutcome {
	fn := fv.fn.(*ssa.Function)
	nf := &Frame{fn: fn, vals: map[ssa.Value]Value{}, depth: fr.depth + 1, loopHdr: loopHeaders(fn), ctx: fr.ctx}
	for i, p := range fn.Params {
		nf.vals[p] = args[i]
	}
	for i, v := range fn.FreeVars {
		nf.vals[v] = fv.bind[i]
	}
	var outs []callOutcome
	for _, ex := range e.execFrom(st, nf, fn.Blocks[0], nil, 0) {
		switch ex.kind {
		case "return":
			outs = append(outs, callOutcome{st: ex.st, result: resultOf(fn, ex.results)})
		case "panic":
			outs = append(outs, callOutcome{st: ex.st, panics: true, msg: ex.msg})
		}
	}
	return outs
}

func (e *Engine) callFunction(st *State, fr *Frame, fn *ssa.Function, args []Value, in *ssa.Call) []callOutcome {
	full := fn.String()
	if fn.Name() == "init" && !e.isRepoFunc(fn) {
		return []callOutcome{{st: st}}
	}
	if h, ok := intrinsics[full]; ok {
		r := h(e, st, fr, args, in)
		if fv, ok := r.(*forkVal); ok {
			return fv.outs
		}
		return []callOutcome{{st: st, result: r}}
	}
	if e.concrete && fn.Parent() != nil && e.touchesEmbeddedTable(fn) {
		// table initialisers are not ground-evaluated here: their result is a lazily symbolic region
		// constrained by the table invariants, which are obligations of the C05 check (tables.go).
		rt := fn.Signature.Results().At(0).Type().(*types.Pointer)
		r := e.newRegion("tbl$"+fn.Name(), rt.Elem(), false)
		r.lazy = true
		r.global = true
		if strings.Contains(rt.Elem().String(), "hugeAffinePointMultTable") {
			r.tblKind = "huge"
		} else {
			r.tblKind = "odd"
		}
		e.tableRegions = append(e.tableRegions, r)
		return []callOutcome{{st: st, result: &PtrVal{reg: r, typ: rt}}}
	}
	c := e.contractFor(fn)
	if c != nil && !c.Inline && !e.concrete {
		return e.applyContract(st, fr, fn, c, args, in)
	}
	if fn.Blocks == nil {
		e.fail("call to %s: no body, no contract, no intrinsic (from %s)", full, fr.fn)
	}
	external := !e.isRepoFunc(fn)
	if external && !e.concrete {
		ok := false
		for _, p := range inlineExternalPkgs {
			if fn.Pkg != nil && fn.Pkg.Pkg.Path() == p {
				ok = true
			}
		}
		if !ok {
			e.fail("call to external function %s without contract (from %s)", full, fr.fn)
		}
		if e.inlinedExt == nil {
			e.inlinedExt = map[string]bool{}
		}
		e.inlinedExt[full] = true
	}
	if !e.concrete && !external {
		_, rel := e.funcKey(fn)
		e.inlined[rel] = true
	}
	var outs []callOutcome
	if external && !e.concrete && !e.eagerPrune {
		// dependency code has no loop invariants: bounded-by-feasibility exploration with solver pruning
		e.eagerPrune = true
		defer func() { e.eagerPrune = false }()
	}
	for _, ex := range e.execFunction(st, fn, args, fr.depth+1, fr.ctx) {
		switch ex.kind {
		case "return":
			outs = append(outs, callOutcome{st: ex.st, result: resultOf(fn, ex.results)})
		case "panic":
			outs = append(outs, callOutcome{st: ex.st, panics: true, msg: ex.msg})
		}
	}
	return outs
}

// dependency packages whose real code is symbolically executed (inlined) instead of being modelled
var inlineExternalPkgs = []string{"golang.org/x/crypto/cryptobyte", "encoding/asn1"}

// ---------------------------------------------------------------------------- contracts at call sites

func paramNames(fn *ssa.Function) []string {
	var out []string
	for _, p := range fn.Params {
		out = append(out, p.Name())
	}
	return out
}

func resultNames(fn *ssa.Function, c *Contract) []string {
	if c != nil && len(c.Results) > 0 {
		return c.Results
	}
	var out []string
	rs := fn.Signature.Results()
	for i := 0; i < rs.Len(); i++ {
		out = append(out, rs.At(i).Name())
	}
	return out
}

func (e *Engine) specEnv(st, old *State, fn *ssa.Function, c *Contract, args []Value) *SpecEnv {
	env := &SpecEnv{e: e, st: st, old: old, vars: map[string]Value{}, fnName: fn.String()}
	if fn.Pkg != nil {
		env.pkg = fn.Pkg.Pkg
	} else if fn.Parent() != nil && fn.Parent().Pkg != nil {
		env.pkg = fn.Parent().Pkg.Pkg
	}
	for i, p := range fn.Params {
		if i < len(args) {
			env.vars[p.Name()] = args[i]
		}
	}
	env.resName = resultNames(fn, c)
	return env
}

// applyContract: check requires, havoc modifies, bind results, assume ensures.
func (e *Engine) applyContract(st *State, fr *Frame, fn *ssa.Function, c *Contract, args []Value, in *ssa.Call) []callOutcome {
	_, rel := e.funcKey(fn)
	if c.Trusted != "" {
		e.trusted[rel] = c.Trusted
	}
	site := fmt.Sprintf("call:%s", rel)
	pre := st.fork() // snapshot for old()
	env := e.specEnv(st, pre, fn, c, args)
	// type invariants of arguments are obligations
	for i, a := range args {
		for _, inv := range e.invariantsOfValue(st, a, fn.Params[i].Type(), fn.Params[i].Name()) {
			if c.Weak[fn.Params[i].Name()] && (inv.top || inv.composite) {
				continue
			}
			e.addObligation(st, fr, "callinv", rel+":"+inv.label, inv.t, "type invariant of argument "+inv.label)
			st.assume(inv.t) // proved (or reported) above: available from here on
		}
	}
	for _, grp := range c.NoAlias {
		var ptrs []*PtrVal
		for _, n := range grp {
			for i, p := range fn.Params {
				if p.Name() == n {
					if pv, ok := args[i].(*PtrVal); ok && !pv.null {
						ptrs = append(ptrs, pv)
					}
				}
			}
		}
		for i := range ptrs {
			for j := i + 1; j < len(ptrs); j++ {
				same := e.valuesEqual(st, ptrs[i], ptrs[j])
				e.addObligation(st, fr, "noalias", rel+":"+strings.Join(grp, ","), mkNot(same), "arguments "+strings.Join(grp, ", ")+" must not alias")
			}
		}
	}
	for i, r := range c.Requires {
		g := env.boolTerm(r.Expr)
		e.addObligation(st, fr, "requires", fmt.Sprintf("%s:%d", rel, i), g, r.Text)
		st.assume(g)
	}
	var outs []callOutcome
	// panic conditions
	if len(c.Panics) > 0 {
		var pcs []*Term
		for _, p := range c.Panics {
			pcs = append(pcs, env.boolTerm(p.Expr))
		}
		pc := st.sub(mkOr(pcs...))
		if !(pc.IsConst() && pc.Val.Sign() == 0) && !st.hypKeys[mkNot(pc).Key()] {
			if fr.ctx != nil && fr.ctx.propagatePanics {
				ps := st.fork()
				ps.assume(pc)
				if !ps.infeasible() {
					outs = append(outs, callOutcome{st: ps, panics: true, msg: "propagated from " + rel})
				}
			} else {
				e.addObligation(st, fr, "nopanic", rel, mkNot(pc), "callee does not panic: !("+c.Panics[0].Text+")")
			}
			alwaysPanics := (pc.IsConst() && pc.Val.Sign() != 0) || st.hypKeys[pc.Key()]
			st.assume(mkNot(pc))
			if alwaysPanics || st.infeasible() {
				// the callee certainly panics on this path: there is no normal return to describe
				return outs
			}
		}
	}
	// case split requested by the contract (conditional pointer results)
	states := []*State{st}
	// `split dyn p T`: case analysis on the dynamic type of a symbolic interface argument
	for _, sp := range c.Splits {
		if !strings.HasPrefix(sp.Text, "dyn ") {
			continue
		}
		f := strings.Fields(strings.TrimPrefix(sp.Text, "dyn "))
		pi := -1
		for i, p := range fn.Params {
			if p.Name() == f[0] {
				pi = i
			}
		}
		if pi < 0 || pi >= len(args) {
			continue
		}
		iv, ok := args[pi].(*IfaceVal)
		if !ok || iv.dyn != nil || iv.tagT == nil {
			continue
		}
		obj := fn.Pkg.Pkg.Scope().Lookup(f[1])
		if obj == nil {
			continue
		}
		var t types.Type = types.NewPointer(obj.Type())
		if len(f) == 3 && f[2] == "value" {
			t = obj.Type()
		}
		if excludedDyn(iv, t) {
			continue
		}
		if _, isPtr := t.(*types.Pointer); isPtr {
			e.fail("call of %s: the dynamic type of argument %s must be known here (split dyn over pointer types is not propagated to callers)", rel, f[0])
		}
		is := mkEq(iv.tagT, dynTypeTerm(t))
		var next []*State
		for _, s := range states {
			cases := [][]*Term{{iv.null}, {mkNot(iv.null), is}, {mkNot(iv.null), mkNot(is)}}
			for ci, cs := range cases {
				s2 := s
				if ci < len(cases)-1 {
					s2 = s.fork()
				}
				for _, cnd := range cs {
					s2.assumeCase(cnd)
				}
				if !s2.infeasible() && !e.unsatisfiable(s2.hyps) {
					next = append(next, s2)
				}
			}
		}
		states = next
	}
	var postSplits []ast.Expr // case splits over the results (nondeterministic outcomes such as a failing reader)
	for _, sp := range c.Splits {
		if !strings.HasPrefix(sp.Text, "case ") {
			continue
		}
		ce, err := parseSpecExpr(strings.TrimPrefix(sp.Text, "case "))
		if err != nil {
			e.fail("%v", err)
		}
		mentionsResult := false
		for _, id := range freeIdents(ce) {
			if strings.HasPrefix(id, "result") {
				mentionsResult = true
			}
		}
		if mentionsResult {
			postSplits = append(postSplits, ce)
			continue
		}
		var next []*State
		for _, s := range states {
			env.st = s
			ct := s.sub(env.boolTerm(ce))
			env.st = st
			if ct.IsConst() || s.hypKeys[ct.Key()] || s.hypKeys[mkNot(ct).Key()] {
				next = append(next, s)
				continue
			}
			s2 := s.fork()
			s.assume(ct)
			s2.assume(mkNot(ct))
			if !s.infeasible() && !e.unsatisfiable(s.hyps) {
				next = append(next, s)
			}
			if !s2.infeasible() && !e.unsatisfiable(s2.hyps) {
				next = append(next, s2)
			}
		}
		states = next
	}
	// every combination of the result cases
	type forced struct {
		st    *State
		force []ast.Expr
	}
	work := []forced{}
	for _, s := range states {
		work = append(work, forced{s, nil})
	}
	for _, ps := range postSplits {
		var next []forced
		for _, w := range work {
			s2 := w.st.fork()
			next = append(next, forced{w.st, append(append([]ast.Expr{}, w.force...), ps)})
			next = append(next, forced{s2, append(append([]ast.Expr{}, w.force...), &ast.UnaryExpr{Op: token.NOT, X: &ast.ParenExpr{X: ps}})})
		}
		work = next
	}
	alive := 0
	for wi, w := range work {
		s := w.st
		res := e.applyPost(s, pre, fr, fn, c, args, site, w.force...)
		if s.infeasible() && len(w.force) > 0 {
			// one result case excluded by the postcondition is fine; all of them excluded is a contract error
			if wi == len(work)-1 && alive == 0 {
				e.errors = append(e.errors, fmt.Sprintf("%s: postcondition of %s excludes every result case at this call site (contract error)", e.curFunc, rel))
			}
			continue
		}
		alive++
		if s.infeasible() {
			// vacuity guard: a callee postcondition that is syntactically contradictory in a feasible state
			e.errors = append(e.errors, fmt.Sprintf("%s: postcondition of %s is contradictory at this call site (contract error)", e.curFunc, rel))
		}
		outs = append(outs, callOutcome{st: s, result: res})
	}
	return outs
}

func (e *Engine) applyPost(st, pre *State, fr *Frame, fn *ssa.Function, c *Contract, args []Value, site string, force ...ast.Expr) Value {
	_, rel := e.funcKey(fn)
	env := e.specEnv(st, pre, fn, c, args)
	e.varN++
	tag := fmt.Sprintf("%s!%d", strings.NewReplacer("(", "", ")", "", "*", "").Replace(rel), e.varN)
	st.epoch++
	// havoc modifies
	var havoced []cellRef
	for _, m := range c.Modifies {
		for _, x := range m.Exprs {
			if id, isGhost := env.ghostStateItem(x); isGhost {
				if id != "" {
					st.setObjState(id, mkIntVarR(tag+".state$"+id, nil, nil))
				}
				continue
			}
			cells, dyn := env.lvalueCells(x)
			for _, cr := range cells {
				e.havocCell(st, cr, tag)
				havoced = append(havoced, cr)
			}
			for _, d := range dyn {
				e.havocDyn(st, d, tag)
			}
		}
	}
	// results
	rs := fn.Signature.Results()
	results := make([]Value, rs.Len())
	freshSet := map[string]bool{}
	for _, f := range c.Fresh {
		for _, x := range f.Exprs {
			if id, ok := x.(*ast.Ident); ok {
				freshSet[id.Name] = true
			}
		}
	}
	names := resultNames(fn, c)
	for i := 0; i < rs.Len(); i++ {
		rt := rs.At(i).Type()
		nm := fmt.Sprintf("result%d", i)
		isFresh := freshSet[nm] || (i == 0 && freshSet["result"]) || (names[i] != "" && freshSet[names[i]])
		results[i] = e.symbolicResult(st, rt, fmt.Sprintf("%s.r%d", tag, i), isFresh)
	}
	env.results = results
	// ensures: definitions of pointer / slice / aggregate results first, then everything else
	var conj []ast.Expr
	var flat func(x ast.Expr)
	flat = func(x ast.Expr) {
		switch n := x.(type) {
		case *ast.ParenExpr:
			flat(n.X)
			return
		case *ast.BinaryExpr:
			if n.Op.String() == "&&" {
				flat(n.X)
				flat(n.Y)
				return
			}
		}
		conj = append(conj, x)
	}
	for _, en := range c.Ensures {
		flat(en.Expr)
	}
	isResDef := func(x ast.Expr) bool {
		if n, ok := x.(*ast.BinaryExpr); ok && n.Op.String() == "==" {
			if id, ok := n.X.(*ast.Ident); ok {
				if ri := resultIndex(id.Name, names); ri >= 0 {
					switch results[ri].(type) {
					case *PtrVal, *SliceVal, *AggVal:
						return true
					}
				}
			}
		}
		return false
	}
	for _, x := range force {
		// the result case of this outcome (e.g. result1 == nil / !(result1 == nil))
		if u, ok := x.(*ast.UnaryExpr); ok && u.Op == token.NOT {
			if p, ok := u.X.(*ast.ParenExpr); ok {
				if b, ok := p.X.(*ast.BinaryExpr); ok && b.Op == token.EQL {
					x = &ast.BinaryExpr{X: b.X, Op: token.NEQ, Y: b.Y}
				}
			}
		}
		e.assumeEnsures(st, env, x, results, names)
	}
	for _, x := range conj {
		if isResDef(x) {
			e.assumeEnsures(st, env, x, results, names)
		}
	}
	for _, x := range conj {
		if !isResDef(x) {
			was := st.infeasible()
			e.assumeEnsures(st, env, x, results, names)
			if !was && st.infeasible() && os.Getenv("VCGO_TRACE") != "" {
				fmt.Fprintf(os.Stderr, "[trace] %s: call of %s: outcome becomes infeasible at: %s\n", e.curFunc, rel, exprString(x))
			}
		}
	}
	// type invariants of havoced objects and fresh results
	// the callee re-establishes the invariants of the typed objects it was handed (objects at or below
	// an argument pointer) -- not those of enclosing objects it cannot see.
	type root struct {
		reg  *Region
		path []int
	}
	var roots []root
	weakRoot := map[string]bool{}
	for i, a := range args {
		if p, ok := a.(*PtrVal); ok && !p.null && !p.reg.dyn {
			r, pp, _ := e.resolveWindow(p.reg, p.path)
			roots = append(roots, root{r, pp})
			if i < len(fn.Params) && c.Weak[fn.Params[i].Name()] {
				weakRoot[pathKey(r.id, pp)] = true
			}
		}
	}
	for _, cr := range dedupeObjects(e, havoced) {
		visible := false
		for _, rt := range roots {
			if rt.reg == cr.reg && len(rt.path) <= len(cr.path) {
				ok := true
				for i := range rt.path {
					if rt.path[i] != cr.path[i] {
						ok = false
					}
				}
				if ok {
					visible = true
				}
			}
		}
		if !visible {
			continue
		}
		if weakRoot[pathKey(cr.reg.id, cr.path)] {
			continue
		}
		for _, inv := range e.invariantsAt(st, cr.reg, cr.path, cr.typ, cr.reg.name+pathName(cr.reg.typ, cr.path)) {
			if inv.top {
				st.assume(inv.t)
			}
		}
	}
	for i, r := range env.results {
		isWeak := false
		if p, ok := r.(*PtrVal); ok && !p.null && !p.reg.dyn {
			rr, pp, _ := e.resolveWindow(p.reg, p.path)
			isWeak = weakRoot[pathKey(rr.id, pp)]
		}
		for _, inv := range e.invariantsOfValue(st, r, rs.At(i).Type(), fmt.Sprintf("result%d", i)) {
			if isWeak && inv.top {
				continue
			}
			st.assume(inv.t)
		}
	}
	// a pointer / slice result must be declared fresh or be defined by an `ensures resultK == ...` that
	// applies in this outcome; otherwise callers would be told it is nil without the callee being checked
	if !st.infeasible() {
		for i := 0; i < rs.Len(); i++ {
			nm := fmt.Sprintf("result%d", i)
			isFresh := freshSet[nm] || (i == 0 && freshSet["result"]) || (names[i] != "" && freshSet[names[i]])
			switch underlying(rs.At(i).Type()).(type) {
			case *types.Pointer, *types.Slice:
				if !isFresh && !env.resultDefined[i] {
					e.fail("contract of %s: result %d is neither declared fresh nor defined by an ensures clause that applies at this call", rel, i)
				}
			}
		}
	}
	for i, r := range env.results {
		env.results[i] = substValue(r, st.subst)
	}
	return resultOf(fn, env.results)
}

func substValue(v Value, sub map[string]*Term) Value {
	switch x := v.(type) {
	case *Term:
		return substitute(x, sub)
	case *AggVal:
		n := &AggVal{typ: x.typ, elems: make([]Value, len(x.elems))}
		for i, el := range x.elems {
			n.elems[i] = substValue(el, sub)
		}
		return n
	case *SliceVal:
		if x.reg == nil {
			return x
		}
		n := *x
		n.off, n.length, n.capacity = substitute(x.off, sub), substitute(x.length, sub), substitute(x.capacity, sub)
		return &n
	}
	return v
}

func (e *Engine) havocCell(st *State, cr cellRef, tag string) {
	name := fmt.Sprintf("%s.%s%s", tag, cr.reg.name, pathName(cr.reg.typ, cr.path))
	switch u := underlying(cr.typ).(type) {
	case *types.Basic:
		_ = u
		st.mem.cells[pathKey(cr.reg.id, cr.path)] = e.symbolicScalar(name, cr.typ)
		st.markWritten(pathKey(cr.reg.id, cr.path))
	case *types.Slice:
		// slice header: new unknown slice over a fresh dynamic region
		r := e.newRegion(name, u.Elem(), true)
		r.dyn = true
		r.created = st.epoch + 1
		n := mkIntVarR(name+".len", big0, big.NewInt(1<<40))
		r.dynLen = n
		st.mem.cells[pathKey(r.id, nil)] = &Term{Op: "var", Sort: SArr, Name: name + ".arr", Lo: big0, Hi: maxU8}
		st.mem.cells[pathKey(cr.reg.id, cr.path)] = &SliceVal{reg: r, off: mkInt64(0), length: n, capacity: n, elem: u.Elem(), backingN: -1}
	case *types.Pointer:
		// pointer cells keep their target (contracts state changes explicitly)
	default:
		e.fail("havoc of unsupported cell type %s", cr.typ)
	}
}

func (e *Engine) havocDyn(st *State, s *SliceVal, tag string) {
	if s.reg.dyn {
		lo, hi := intRange(s.elem)
		st.markWritten(pathKey(s.reg.id, nil))
		st.mem.cells[pathKey(s.reg.id, nil)] = &Term{Op: "var", Sort: SArr, Name: e.freshName(tag + "." + s.reg.name + ".arr"), Lo: lo, Hi: hi}
		return
	}
	// expanded region with symbolic bounds: havoc every element conditionally
	n := s.backingN
	for i := int64(0); i < n; i++ {
		inr := mkAnd(mkLe(s.off, mkInt64(i)), mkLt(mkInt64(i), mkAdd(s.off, s.length)))
		if inr.IsConst() && inr.Val.Sign() == 0 {
			continue
		}
		old := e.loadPath(st, s.reg, extend(s.path, int(i)), s.elem).(*Term)
		nv := e.symbolicScalar(fmt.Sprintf("%s.%s[%d]", tag, s.reg.name, i), s.elem)
		e.storePath(st, s.reg, extend(s.path, int(i)), s.elem, mkIte(inr, nv, old))
	}
}

// symbolicResult creates the value of a callee result.
func (e *Engine) symbolicResult(st *State, t types.Type, name string, fresh bool) Value {
	switch u := underlying(t).(type) {
	case *types.Basic:
		if u.Info()&types.IsString != 0 {
			return &StrVal{}
		}
		return e.symbolicScalar(name, t)
	case *types.Pointer:
		if fresh {
			r := e.newRegion(name, u.Elem(), true)
			r.created = st.epoch + 1
			e.symbolicRegion(st, r, name)
			return &PtrVal{reg: r, typ: t}
		}
		return &PtrVal{null: true, typ: t} // overwritten by `ensures result == ...`
	case *types.Slice:
		if fresh {
			r := e.newRegion(name, u.Elem(), true)
			r.dyn = true
			r.created = st.epoch + 1
			n := mkIntVarR(name+".len", big0, big.NewInt(1<<40))
			r.dynLen = n
			lo, hi := intRange(u.Elem())
			st.mem.cells[pathKey(r.id, nil)] = &Term{Op: "var", Sort: SArr, Name: name + ".arr", Lo: lo, Hi: hi}
			cp := mkIntVarR(name+".cap", big0, big.NewInt(1<<40))
			st.assume(mkLe(n, cp))
			return &SliceVal{reg: r, off: mkInt64(0), length: n, capacity: cp, elem: u.Elem(), backingN: -1}
		}
		return &SliceVal{elem: u.Elem(), off: mkInt64(0), length: mkInt64(0), capacity: mkInt64(0)}
	case *types.Interface:
		return &IfaceVal{null: mkVar(name+".isnil", SBool), tagT: mkIntVarR(name+".tag", nil, nil), obj: name}
	case *types.Array, *types.Struct:
		// aggregate value result: fresh symbolic leaves
		r := e.newRegion(name, t, true)
		e.symbolicRegion(st, r, name)
		av := e.loadPath(st, r, nil, t)
		if a, ok := av.(*AggVal); ok {
			if e.aggRegions == nil {
				e.aggRegions = map[*AggVal]*Region{}
			}
			e.aggRegions[a] = r
		}
		return av
	}
	e.fail("unsupported result type %s", t)
	return nil
}

// symbolicRegion fills an expanded region with fresh symbolic scalars (pointer leaves are nil).
func (e *Engine) symbolicRegion(st *State, r *Region, name string) {
	leafPaths(r.typ, nil, func(path []int, lt types.Type) {
		nm := name + pathName(r.typ, path)
		switch u := underlying(lt).(type) {
		case *types.Basic:
			if u.Info()&types.IsString != 0 {
				st.mem.cells[pathKey(r.id, path)] = &StrVal{}
			} else {
				st.mem.cells[pathKey(r.id, path)] = e.symbolicScalar(nm, lt)
			}
		case *types.Slice:
			cr := cellRef{r, path, lt}
			e.havocCell(st, cr, name)
		case *types.Pointer:
			// fresh objects own fresh sub-objects (bounded depth); contracts may re-point the field
			if strings.Count(name, "->") < 3 {
				if _, isStruct := underlying(u.Elem()).(*types.Struct); isStruct {
					sub := e.newRegion(nm+"->", u.Elem(), true)
					sub.created = st.epoch + 1
					e.symbolicRegion(st, sub, nm+"->")
					st.mem.cells[pathKey(r.id, path)] = &PtrVal{reg: sub, typ: lt}
					return
				}
			}
			st.mem.cells[pathKey(r.id, path)] = e.zeroValue(lt)
		default:
			st.mem.cells[pathKey(r.id, path)] = e.zeroValue(lt)
		}
	})
}

// assumeEnsures processes one ensures clause at a call site.
func (e *Engine) assumeEnsures(st *State, env *SpecEnv, x ast.Expr, results []Value, names []string) {
	switch n := x.(type) {
	case *ast.ParenExpr:
		e.assumeEnsures(st, env, n.X, results, names)
		return
	case *ast.BinaryExpr:
		if n.Op.String() == "&&" {
			e.assumeEnsures(st, env, n.X, results, names)
			e.assumeEnsures(st, env, n.Y, results, names)
			return
		}
		if n.Op.String() == "==" {
			// pointer / slice / aggregate valued result definition
			if id, ok := n.X.(*ast.Ident); ok {
				if ri := resultIndex(id.Name, names); ri >= 0 {
					switch results[ri].(type) {
					case *PtrVal, *SliceVal, *AggVal:
						v := env.eval(n.Y)
						if rv, ok := v.(*RefVal); ok {
							v = env.loadRef(rv)
						}
						results[ri] = v
						if env.resultDefined == nil {
							env.resultDefined = map[int]bool{}
						}
						env.resultDefined[ri] = true
						env.results = results
						return
					case *IfaceVal:
						v := env.eval(n.Y)
						if p, ok := v.(*PtrVal); ok && p.null {
							results[ri] = &IfaceVal{null: tTrue}
							env.results = results
							return
						}
					}
				}
			}
			l, r := env.eval(n.X), env.eval(n.Y)
			if lr, ok := l.(*RefVal); ok {
				switch underlying(lr.typ).(type) {
				case *types.Slice, *types.Pointer:
					// cell := value (slice header / pointer cells are assigned, not constrained)
					rv := r
					if rr, ok := rv.(*RefVal); ok {
						rv = env.loadRef(rr)
					}
					e.storePath(st, lr.reg, lr.path, lr.typ, rv)
					return
				}
			}
			lt, lok := l.(*Term)
			if rv, ok := l.(*RefVal); ok && isScalarType(rv.typ) {
				lt, lok = env.loadRef(rv).(*Term)
			}
			rt, rok := r.(*Term)
			if rv, ok := r.(*RefVal); ok && isScalarType(rv.typ) {
				rt, rok = env.loadRef(rv).(*Term)
			}
			if lok && rok {
				if lt.Sort != rt.Sort {
					if lt.Sort == SInt && modulusOf(rt.Sort) != nil {
						lt = mkToRing(rt.Sort, lt)
					} else if rt.Sort == SInt && modulusOf(lt.Sort) != nil {
						rt = mkToRing(lt.Sort, rt)
					}
				}
				rt = st.sub(rt)
				if definable(lt) && !occurs(lt, rt) {
					st.addSubst(lt, rt)
					return
				}
				// `fresh-polynomial == lift(residue)`: the canonical representative is *defined* by the callee's
				// outputs; rewrite lift(..) so that products of representatives expand over the output limbs
				if rt.Op == "app" && rt.Name == "lift" && lt.Sort == SInt && lt.Op == "poly" && onlyFreshVars(lt) && !occurs(rt, lt) {
					st.assume(mkEq(lt, rt))
					st.addSubst(rt, lt)
					// and the residue of the fresh polynomial is the residue it was lifted from
					if tr := mkToRing(rt.Args[0].Sort, lt); tr.Op == "app" && tr.Name == "toring" && !occurs(tr, rt.Args[0]) {
						st.addSubst(tr, rt.Args[0])
					}
					return
				}
				// `polynomial over the bytes of a fresh buffer == lift(residue)`: the residue of the byte
				// polynomial is that residue (rewrite rule; the equation itself stays a hypothesis)
				if rt.Op == "app" && rt.Name == "lift" && lt.Sort == SInt && lt.Op == "poly" && freshBytesPoly(lt) {
					if tr := mkToRing(rt.Args[0].Sort, lt); tr.Op == "app" && tr.Name == "toring" && !occurs(tr, rt.Args[0]) {
						st.assume(mkEq(lt, rt))
						st.addSubst(tr, rt.Args[0])
						e.orientDigits(st, lt, rt)
						return
					}
				}
				// `big-endian value of a buffer written by the callee == t`: where that value occurs as a whole
				// (e.g. as the argument of a byte-string abstraction) it is t
				if lt.Sort == SInt && lt.Op == "poly" && freshBytesPoly(lt) && !occurs(lt, rt) && e.curContract != nil && e.curContract.Options["digits"] {
					st.assume(mkEq(lt, rt))
					st.addSubst(lt, rt)
					e.orientDigits(st, lt, rt)
					return
				}
				st.assume(mkEq(lt, rt))
				return
			}
		}
		if n.Op.String() == "!=" {
			if id, ok := n.X.(*ast.Ident); ok {
				if ri := resultIndex(id.Name, names); ri >= 0 {
					if iv, ok := results[ri].(*IfaceVal); ok {
						if p, ok := env.eval(n.Y).(*PtrVal); ok && p.null {
							if iv.null.IsConst() && iv.null.Val.Sign() != 0 {
								st.assume(tFalse) // this outcome has a nil result: the case is impossible
								return
							}
							results[ri] = &IfaceVal{null: tFalse, tagT: iv.tagT, tag: iv.tag, obj: iv.obj}
							env.results = results
							return
						}
					}
				}
			}
		}
	case *ast.CallExpr:
		if id, ok := n.Fun.(*ast.Ident); ok {
			switch id.Name {
			case "implies":
				g := st.sub(env.boolTerm(n.Args[0]))
				if os.Getenv("VCGO_TRACE") == "2" {
					fmt.Fprintf(os.Stderr, "[trace] implies cond=%s knownTrue=%v knownFalse=%v :: %s\n", trunc(pretty(g, 5), 300), knownTrue(st, g), knownFalse(st, g), trunc(exprString(n), 120))
				}
				if knownTrue(st, g) {
					e.assumeEnsures(st, env, n.Args[1], results, names)
					return
				}
				if knownFalse(st, g) {
					return
				}
				// an undecided case whose consequence fixes the nil-ness of a pointer result cannot be
				// represented by one outcome: the contract must split on it (`split case ...`)
				if mentionsPtrResultNil(n.Args[1], results, names) {
					e.fail("ensures %s: the condition is undecided at this call site and the consequence decides whether a pointer result is nil; add `split case` to the contract", exprString(n))
				}
			case "isdyn":
				// isdyn(resultK, T): the interface result holds a fresh object of dynamic type *T
				if rid, ok := n.Args[0].(*ast.Ident); ok {
					if ri := resultIndex(rid.Name, names); ri >= 0 && ri < len(results) {
						if iv, ok := results[ri].(*IfaceVal); ok && iv.dyn == nil {
							tn := exprString(n.Args[1])
							obj := env.pkg.Scope().Lookup(tn)
							if obj == nil {
								e.fail("isdyn: unknown type %s", tn)
							}
							pt := types.NewPointer(obj.Type())
							e.varN++
							pv := e.symbolicResult(st, pt, fmt.Sprintf("%s.(*%s)!%d", rid.Name, tn, e.varN), true)
							results[ri] = &IfaceVal{null: tFalse, dyn: pt, val: pv}
							env.results = results
							for _, inv := range e.invariantsOfValue(st, pv, pt, rid.Name) {
								st.assume(inv.t)
							}
							return
						}
					}
				}
			case "rewrite":
				// rewrite(a, t): the equation a == t, used from here on as the rewrite rule a -> t
				// (a must be an atom of the normal form that does not occur in t)
				l, r := env.term(n.Args[0]), env.term(n.Args[1])
				if l.Sort != r.Sort && modulusOf(l.Sort) != nil && r.Sort == SInt {
					r = mkToRing(l.Sort, r)
				}
				l, r = st.sub(l), st.sub(r)
				st.assume(mkEq(l, r))
				if l.Op == "lin" {
					if a := l.L.singleAtom(); a != nil {
						l = a
					}
				}
				if l.Sort == r.Sort && isAtomTerm(l) && !occurs(l, r) {
					st.addSubst(l, r)
				} else {
					e.fail("rewrite(%s, ...): the left-hand side is not an atom independent of the right-hand side: %s / %s", exprString(n.Args[0]), trunc(pretty(l, 4), 300), trunc(pretty(r, 4), 300))
				}
				return
			case "fact":
				// a plain hypothesis: never oriented into a rewrite rule
				t := st.sub(env.boolTerm(n.Args[0]))
				if !st.hypKeys[t.Key()] {
					st.hypKeys[t.Key()] = true
					st.hyps = append(st.hyps, t)
				}
				return
			case "iff":
				l := env.boolTerm(n.Args[0])
				if l.Op == "var" && definable(l) {
					r := st.sub(env.boolTerm(n.Args[1]))
					if knownTrue(st, r) {
						r = tTrue
					} else if knownFalse(st, r) {
						r = tFalse
					}
					if !occurs(l, r) {
						st.addSubst(l, r)
						return
					}
				}
			case "errIs":
				if rid, ok := n.Args[0].(*ast.Ident); ok {
					if ri := resultIndex(rid.Name, names); ri >= 0 {
						if _, ok := results[ri].(*IfaceVal); ok {
							results[ri] = &IfaceVal{null: tFalse, tag: n.Args[1].(*ast.Ident).Name}
							env.results = results
							return
						}
					}
				}
			}
		}
	}
	t := env.boolTerm(x)
	if os.Getenv("VCGO_TRACE") == "2" {
		fmt.Fprintf(os.Stderr, "[trace] assume %s\n", trunc(pretty(st.sub(t), 4), 400))
	}
	if t.Op == "var" && definable(t) {
		st.addSubst(t, tTrue)
		return
	}
	if t.Op == "not" && t.Args[0].Op == "var" && definable(t.Args[0]) {
		st.addSubst(t.Args[0], tFalse)
		return
	}
	st.assume(t)
}

func mentionsPtrResultNil(x ast.Expr, results []Value, names []string) bool {
	found := false
	ast.Inspect(x, func(n ast.Node) bool {
		b, ok := n.(*ast.BinaryExpr)
		if !ok || (b.Op != token.EQL && b.Op != token.NEQ) {
			return true
		}
		id, ok := b.X.(*ast.Ident)
		y, ok2 := b.Y.(*ast.Ident)
		if ok && ok2 && y.Name == "nil" {
			if ri := resultIndex(id.Name, names); ri >= 0 && ri < len(results) {
				if _, isPtr := results[ri].(*PtrVal); isPtr {
					found = true
				}
			}
		}
		return true
	})
	return found
}

func resultIndex(name string, names []string) int {
	if name == "result" {
		return 0
	}
	if strings.HasPrefix(name, "result") && len(name) == 7 {
		return int(name[6] - '0')
	}
	for i, n := range names {
		if n != "" && n == name {
			return i
		}
	}
	return -1
}

// definable: the term may be used as the left-hand side of a rewriting fact: a variable or an
// abstraction atom (fm / app) -- i.e. an atom, not a compound polynomial.
// isAtomTerm: a term the polynomial normal form treats as indivisible.
func isAtomTerm(t *Term) bool {
	switch t.Op {
	case "var", "app", "select":
		return true
	}
	return false
}

func definable(t *Term) bool {
	switch t.Op {
	case "var":
		return strings.Contains(t.Name, "!")
	case "app":
		if t.Name == "fm" || t.Name == "pt" || t.Name == "aff" || t.Name == "os2ipn" {
			has := false
			t.walk(func(u *Term) {
				if u.Op == "var" && strings.Contains(u.Name, "!") {
					has = true
				}
			})
			return has
		}
	}
	return false
}

// freshBytesPoly: a polynomial all of whose atoms are elements of callee-created arrays.
func freshBytesPoly(t *Term) bool {
	if t.Op != "poly" {
		return false
	}
	for _, a := range t.P.Atoms() {
		if a.Op != "select" || a.Args[0].Op != "var" || !strings.Contains(a.Args[0].Name, "!") || !a.Args[1].IsConst() {
			return false
		}
	}
	return len(t.P.t) > 4
}

func onlyFreshVars(t *Term) bool {
	ok := true
	t.walk(func(u *Term) {
		if u.Op == "var" && !strings.Contains(u.Name, "!") {
			ok = false
		}
		if u.Op == "app" || u.Op == "select" {
			ok = false
		}
	})
	return ok
}

func occurs(a, in *Term) bool {
	k := a.Key()
	found := false
	in.walk(func(u *Term) {
		if u.Key() == k {
			found = true
		}
	})
	return found
}

// ---------------------------------------------------------------------------- type invariants

type invInst struct {
	label     string
	t         *Term
	top       bool // invariant of the root object itself (not of a nested object)
	composite bool // the object has nested objects that carry invariants of their own (Point, key objects)
}

func (e *Engine) typeSpecOf(t types.Type) *TypeSpec {
	nt, ok := t.(*types.Named)
	if !ok || nt.Obj().Pkg() == nil {
		return nil
	}
	return e.db.Types[nt.Obj().Pkg().Path()+"."+nt.Obj().Name()]
}

// invariantsAt instantiates the invariants of every typed sub-object at/under (reg,path).
var depth int

func (e *Engine) invariantsAt(st *State, reg *Region, path []int, t types.Type, label string) []invInst {
	var out []invInst
	root := path
	var rec func(path []int, t types.Type, label string)
	rec = func(path []int, t types.Type, label string) {
		if ts := e.typeSpecOf(t); ts != nil {
			env := &SpecEnv{e: e, st: st, vars: map[string]Value{"self": &RefVal{reg: reg, path: path, typ: t}}, fnName: "inv " + ts.Name}
			comp := e.hasNestedSpecs(t)
			for _, c := range ts.Inv {
				out = append(out, invInst{label, env.boolTerm(c.Expr), len(path) == len(root), comp})
			}
		}
		switch u := underlying(t).(type) {
		case *types.Struct:
			for i := 0; i < u.NumFields(); i++ {
				rec(extend(path, i), u.Field(i).Type(), label+"."+u.Field(i).Name())
			}
		case *types.Array:
			if u.Len() <= 256 {
				for i := int64(0); i < u.Len(); i++ {
					rec(extend(path, int(i)), u.Elem(), fmt.Sprintf("%s[%d]", label, i))
				}
			}
		case *types.Pointer:
			// follow non-nil pointer fields of key objects (bounded depth)
			if depth < 3 && len(path) > 0 {
				if cv, ok := st.mem.cells[pathKey(reg.id, path)]; ok {
					if p, ok := cv.(*PtrVal); ok && !p.null && !p.reg.dyn && p.sym == nil {
						depth++
						sub := e.invariantsAt(st, p.reg, p.path, subType(p.reg.typ, p.path), label)
						depth--
						for _, si := range sub {
							si.top = false
							out = append(out, si)
						}
					}
				}
			}
		}
	}
	rec(path, t, label)
	return out
}

func (e *Engine) invariantsOfValue(st *State, v Value, t types.Type, label string) []invInst {
	switch p := v.(type) {
	case *AggVal:
		// aggregate result of a contracted call: invariants of the objects it contains
		if r, ok := e.aggRegions[p]; ok {
			var out []invInst
			for _, inv := range e.invariantsAt(st, r, nil, r.typ, label) {
				if !inv.composite {
					out = append(out, inv)
				}
			}
			return out
		}
		return nil
	case *PtrVal:
		if p.null || p.reg.dyn || p.sym != nil {
			return nil
		}
		if _, ok := e.windows[p.reg.id]; ok {
			return nil
		}
		return e.invariantsAt(st, p.reg, p.path, subType(p.reg.typ, p.path), label)
	case *SliceVal:
		// a slice of pointers of known length over an expanded region: the invariants of every element
		if p.reg == nil || p.reg.dyn || !p.length.IsConst() || !p.off.IsConst() {
			return nil
		}
		pt, ok := underlying(p.elem).(*types.Pointer)
		if !ok {
			return nil
		}
		var out []invInst
		for i := int64(0); i < p.length.Val.Int64(); i++ {
			if ev, ok := st.mem.cells[pathKey(p.reg.id, extend(p.path, int(p.off.Val.Int64()+i)))].(*PtrVal); ok {
				out = append(out, e.invariantsOfValue(st, ev, pt, fmt.Sprintf("%s[%d]", label, i))...)
			}
		}
		return out
	case *IfaceVal:
		// an interface value of known dynamic type: the invariants of the object inside
		if p.dyn != nil && p.val != nil {
			return e.invariantsOfValue(st, p.val, p.dyn, label)
		}
	}
	return nil
}

// dedupeObjects maps havoced leaf cells to the minimal enclosing objects carrying invariants.
func dedupeObjects(e *Engine, cells []cellRef) []cellRef {
	seen := map[string]bool{}
	var out []cellRef
	for _, c := range cells {
		// walk up the path looking for typed ancestors with a TypeSpec
		for k := len(c.path); k >= 0; k-- {
			t := subType(c.reg.typ, c.path[:k])
			if e.typeSpecOf(t) != nil {
				key := pathKey(c.reg.id, c.path[:k])
				if !seen[key] {
					seen[key] = true
					out = append(out, cellRef{c.reg, append([]int{}, c.path[:k]...), t})
				}
			}
		}
	}
	return out
}

// ---------------------------------------------------------------------------- loops

func (e *Engine) loopHeader(st *State, fr *Frame, b, prev *ssa.BasicBlock, ord int, ls *LoopSpec, isBack bool) ([]Exit, bool) {
	env := e.specEnv(st, fr.old, fr.fn, fr.contract, nil)
	env.vars = fr.params
	// phi values as seen when arriving along this edge
	pi := -1
	for i, p := range b.Preds {
		if p == prev {
			pi = i
		}
	}
	bindPhis := func(s *State, vals map[*ssa.Phi]Value) {
		for ph, v := range vals {
			fr.vals[ph] = v
			if ph.Comment != "" {
				s.names[ph.Comment] = v
				for _, al := range e.curAliases[ph.Comment] {
					s.names[al] = v
				}
			}
		}
	}
	arriving := map[*ssa.Phi]Value{}
	for _, in := range b.Instrs {
		ph, ok := in.(*ssa.Phi)
		if !ok {
			break
		}
		arriving[ph] = e.get(fr, ph.Edges[pi])
	}
	bindPhis(st, arriving)
	env.st = st
	// loopiter: ghost count of completed iterations of this loop (0 on entry, +1 on every back edge).  It lets an
	// invariant speak about "how many times the body ran" without naming the program's counter.
	itKey := fmt.Sprintf("loopiter%d", ord)
	if isBack {
		if prevIt, ok := st.names[itKey].(*Term); ok {
			st.names["loopiter"] = mkAdd(prevIt, mkInt(big1))
		}
	} else {
		st.names["loopiter"] = mkInt(big0)
	}
	// counters: a header phi that enters with a constant c0 and is re-entered as phi +/- constant satisfies
	// phi == c0 +/- step*loopiter.  This is not assumed: it is an invariant conjunct like any other (checked on
	// entry and on every back edge, with the engine's exact machine arithmetic for phi's next value).
	type ctrRel struct {
		ph   *ssa.Phi
		c0   *big.Int
		step *big.Int
	}
	var ctrs []ctrRel
	if len(b.Preds) == 2 {
		entryIdx := -1
		for i, p := range b.Preds {
			if !b.Dominates(p) {
				entryIdx = i
			}
		}
		if entryIdx >= 0 {
			for _, in := range b.Instrs {
				ph, ok := in.(*ssa.Phi)
				if !ok {
					break
				}
				c0, ok := ph.Edges[entryIdx].(*ssa.Const)
				if !ok || c0.Value == nil || c0.Value.Kind() != constant.Int {
					continue
				}
				bo, ok := ph.Edges[1-entryIdx].(*ssa.BinOp)
				if !ok || bo.X != ssa.Value(ph) || (bo.Op != token.ADD && bo.Op != token.SUB) {
					continue
				}
				sc, ok := bo.Y.(*ssa.Const)
				if !ok || sc.Value == nil || sc.Value.Kind() != constant.Int {
					continue
				}
				c0v, ok1 := new(big.Int).SetString(c0.Value.ExactString(), 10)
				stv, ok2 := new(big.Int).SetString(sc.Value.ExactString(), 10)
				if !ok1 || !ok2 {
					continue
				}
				if bo.Op == token.SUB {
					stv = new(big.Int).Neg(stv)
				}
				ctrs = append(ctrs, ctrRel{ph, c0v, stv})
			}
		}
	}
	ctrTerm := func(c ctrRel) *Term {
		it, _ := st.names["loopiter"].(*Term)
		pv, ok := fr.vals[c.ph].(*Term)
		if it == nil || !ok {
			return nil
		}
		return mkEq(pv, mkAdd(mkInt(c.c0), mkMul(mkInt(c.step), it)))
	}
	for i, inv := range ls.Invariants {
		kind := "inv-entry"
		if isBack {
			kind = "inv-preserved"
		}
		e.addObligation(st, fr, kind, fmt.Sprintf("loop%d:%d", ord, i), env.boolTerm(inv.Expr), inv.Text)
	}
	if usesLoopiter(ls) {
		for _, c := range ctrs {
			if t := ctrTerm(c); t != nil {
				kind := "inv-entry"
				if isBack {
					kind = "inv-preserved"
				}
				e.addObligation(st, fr, kind, fmt.Sprintf("loop%d:counter:%s", ord, phiName(c.ph)), t,
					fmt.Sprintf("%s == %s + (%s)*loopiter", phiName(c.ph), c.c0, c.step))
			}
		}
	}
	if isBack {
		return []Exit{{kind: "loopback", st: st}}, true
	}
	// havoc: phis and declared memory
	e.varN++
	tag := fmt.Sprintf("loop%d!%d", ord, e.varN)
	hv := map[*ssa.Phi]Value{}
	for ph := range arriving {
		switch v := arriving[ph].(type) {
		case *Term:
			hv[ph] = e.symbolicScalar(tag+"."+phiName(ph), ph.Type())
		default:
			hv[ph] = v // pointers etc. are loop-invariant in this code base
		}
	}
	{
		// an upper bound of the iteration count that the invariant itself states (`loopiter <= e`, e of bounded
		// range) becomes the range of the ghost variable: the invariant is assumed at the head anyway, and a
		// bounded count lets the counter arithmetic below be recognised as non-wrapping
		var itHi *big.Int
		if usesLoopiter(ls) {
			for _, inv := range ls.Invariants {
				for _, cj := range conjunctsOf(inv.Expr) {
					be, ok := cj.(*ast.BinaryExpr)
					if !ok || be.Op != token.LEQ {
						continue
					}
					if id, ok := be.X.(*ast.Ident); !ok || id.Name != "loopiter" {
						continue
					}
					func() {
						defer func() {
							if r := recover(); r != nil {
								if _, ok := r.(engineError); !ok {
									panic(r)
								}
							}
						}()
						if _, hi := rangeOf(st.sub(env.term(be.Y))); hi != nil && (itHi == nil || hi.Cmp(itHi) < 0) {
							itHi = hi
						}
					}()
				}
			}
		}
		it := mkIntVarR(tag+".loopiter", big0, itHi)
		if usesLoopiter(ls) {
			// counters are *defined* by the iteration count (the relation is an invariant conjunct, checked on entry
			// and on every back edge above)
			for _, c := range ctrs {
				if _, ok := hv[c.ph].(*Term); ok {
					hv[c.ph] = mkAdd(mkInt(c.c0), mkMul(mkInt(c.step), it))
				}
			}
		}
		bindPhis(st, hv)
		st.names["loopiter"] = it
		st.names[itKey] = it
		st.assume(mkLe(mkInt(big0), it))
	}
	for _, m := range ls.Modifies {
		for _, x := range m.Exprs {
			cells, dyn := env.lvalueCells(x)
			for _, cr := range cells {
				e.havocCell(st, cr, tag)
			}
			for _, d := range dyn {
				e.havocDyn(st, d, tag)
			}
			for _, cr := range dedupeObjects(e, cells) {
				for _, inv := range e.invariantsAt(st, cr.reg, cr.path, cr.typ, "") {
					st.assume(inv.t)
				}
			}
		}
	}
	for _, inv := range ls.Invariants {
		// equalities whose left side is an abstraction of havoced cells act as definitions
		e.assumeEnsures(st, env, inv.Expr, nil, nil)
	}
	if fr.contract != nil {
		for _, u := range fr.contract.Using {
			func() {
				defer func() {
					if r := recover(); r != nil {
						if _, ok := r.(engineError); !ok {
							panic(r)
						}
					}
				}()
				for _, h := range e.instantiateLemma(env, u) {
					st.assume(h)
				}
			}()
		}
	}
	return nil, false
}

// usesLoopiter: the loop's invariants mention the ghost iteration count.
func usesLoopiter(ls *LoopSpec) bool {
	for _, inv := range ls.Invariants {
		for _, id := range freeIdents(inv.Expr) {
			if id == "loopiter" {
				return true
			}
		}
	}
	return false
}

func phiName(ph *ssa.Phi) string {
	if ph.Comment != "" {
		return ph.Comment
	}
	return ph.Name()
}

// ---------------------------------------------------------------------------- cut points

func freeIdents(x ast.Expr) []string {
	var out []string
	ast.Inspect(x, func(n ast.Node) bool {
		switch t := n.(type) {
		case *ast.CallExpr:
			// skip function name
			for _, a := range t.Args {
				out = append(out, freeIdents(a)...)
			}
			return false
		case *ast.SelectorExpr:
			out = append(out, freeIdents(t.X)...)
			return false
		case *ast.Ident:
			out = append(out, t.Name)
		}
		return true
	})
	return out
}

// checkCuts emits cut-point lemmas whose referenced locals are all defined.
func (e *Engine) checkCuts(st *State, fr *Frame) {
	e.checkCutsAt(st, fr, false)
}

// effectiveAfterN: a clause positioned at the k-th assignment of a local (`@x#k`) is placed at the last
// assignment when the function assigns x fewer than k times (two assignments merged into one by a refactoring).
// Positions only decide where a proof step is attempted, so this cannot make a wrong function verify.
func (e *Engine) effectiveAfterN(fn *ssa.Function, a *Clause) int {
	if a.AfterN <= 1 {
		return a.AfterN
	}
	if e.staticBinds == nil {
		e.staticBinds = map[*ssa.Function]map[string]int{}
	}
	m, ok := e.staticBinds[fn]
	if !ok {
		m = map[string]int{}
		seen := map[string]map[ssa.Value]bool{}
		for _, b := range fn.Blocks {
			for _, in := range b.Instrs {
				d, ok := in.(*ssa.DebugRef)
				if !ok || d.IsAddr {
					continue
				}
				if _, isConst := d.X.(*ssa.Const); isConst {
					continue
				}
				id, ok := d.Expr.(interface{ String() string })
				if !ok {
					continue
				}
				n := id.String()
				if seen[n] == nil {
					seen[n] = map[ssa.Value]bool{}
				}
				if !seen[n][d.X] {
					seen[n][d.X] = true
					m[n]++
				}
			}
		}
		e.staticBinds[fn] = m
	}
	if sc := m[a.After]; sc > 0 && sc < a.AfterN {
		return sc
	}
	return a.AfterN
}

func (e *Engine) checkCutsAt(st *State, fr *Frame, atReturn bool) {
	if fr.contract == nil || len(fr.contract.Asserts) == 0 {
		return
	}
	for _, a := range fr.contract.Asserts {
		if st.cuts[a.Name] {
			continue
		}
		posReady := true
		if a.After == "return" {
			posReady = atReturn
		} else if a.After != "" && st.binds[a.After] < e.effectiveAfterN(fr.fn, a) {
			posReady = false
		}
		if a.Guard != nil && posReady {
			env := e.specEnv(st, fr.old, fr.fn, fr.contract, nil)
			env.vars = fr.params
			skip := false
			func() {
				defer func() {
					if r := recover(); r != nil {
						if _, ok := r.(engineError); !ok {
							panic(r)
						}
						skip = true
					}
				}()
				if !knownTrue(st, st.sub(env.boolTerm(a.Guard))) {
					skip = true
				}
			}()
			if skip {
				st.cuts[a.Name] = true // does not apply on this path
				continue
			}
		}
		ready := true
		if a.After == "return" {
			ready = atReturn
		} else if a.After != "" && st.binds[a.After] < e.effectiveAfterN(fr.fn, a) {
			ready = false
		}
		ids := freeIdents(a.Expr)
		if a.Kind == "apply" {
			// apply <label>@pos: lemma(args) -- only the arguments mention program variables
			if c, ok := a.Expr.(*ast.CallExpr); ok {
				ids = nil
				for _, x := range c.Args {
					ids = append(ids, freeIdents(x)...)
				}
			}
		}
		for _, id := range ids {
			if _, ok := st.names[id]; ok && !st.weak[id] {
				continue
			}
			if _, ok := fr.params[id]; ok {
				continue
			}
			if _, ok := specConsts[id]; ok || id == "G" || id == "O" || id == "true" || id == "false" || id == "nil" {
				continue
			}
			ready = false
			break
		}
		if !ready {
			if a.Kind == "assert" || a.Kind == "apply" || a.Kind == "fork" || a.Kind == "reach" {
				continue
			}
			// cuts are ordered
			return
		}
		st.cuts[a.Name] = true
		env := e.specEnv(st, fr.old, fr.fn, fr.contract, nil)
		env.vars = fr.params

		if a.Kind == "apply" {
			// a lemma instance whose arguments cannot be evaluated on this path (nil pointer on an error
			// path) is skipped: instances only add hypotheses
			func() {
				defer func() {
					if r := recover(); r != nil {
						if _, ok := r.(engineError); !ok {
							panic(r)
						}
					}
				}()
				h0 := len(st.hyps)
				for _, h := range e.instantiateLemma(env, a) {
					st.assume(h)
				}
				st.markLabel(a.Name, h0)
			}()
			continue
		}
		if a.Kind == "reach" {
			// vacuity guard placed by the contract: this point is reachable (path condition satisfiable);
			// the expression is an additional condition that must be satisfiable there (usually `true`)
			func() {
				defer func() {
					if r := recover(); r != nil {
						if _, ok := r.(engineError); !ok {
							panic(r)
						}
						delete(st.cuts, a.Name) // not evaluable on this path (e.g. nil on an error path)
					}
				}()
				c := st.sub(env.boolTerm(a.Expr))
				s2 := st.fork()
				s2.assume(c)
				e.addCover(s2, "reach:"+a.Name)
			}()
			continue
		}
		if a.Kind == "fork" {
			if atReturn {
				e.fail("fork %s: a case split cannot be placed at return", a.Name)
			}
			c := st.sub(env.boolTerm(a.Expr))
			if !c.IsConst() && st.pendingFork == nil {
				st.pendingFork = c
				st.pendingForkName = a.Name
			}
			continue
		}
		g := strengthenPtGoal(st.sub(env.boolTerm(a.Expr)), true) // what is proved is what is assumed afterwards
		if a.Kind == "assert" && len(a.Abstract) == 0 {
			// intermediate lemma: proved here, then available (nothing is forgotten)
			e.curFrom = a.From
			e.addObligation(st, fr, "assert", a.Name, g, a.Text)
			e.curFrom = nil
			h0 := len(st.hyps)
			if strings.Contains(a.Text, "rewrite(") {
				e.assumeEnsures(st, env, a.Expr, nil, nil) // equations marked rewrite(..) become rules
			} else {
				st.assume(g)
			}
			st.markLabel(a.Name, h0)
			continue
		}
		e.addObligation(st, fr, a.Kind, a.Name, g, a.Text)
		// abstraction: the listed objects get fresh contents; all that is known about them afterwards is
		// their type invariant (checked here for the current contents) and the lemma just proved
		for _, ax := range a.Abstract {
			cells, dyn := env.lvalueCells(ax)
			for _, cr := range dedupeObjects(e, cells) {
				for _, inv := range e.invariantsAt(st, cr.reg, cr.path, cr.typ, "") {
					e.addObligation(st, fr, "inv", a.Name+":"+inv.label, inv.t, "type invariant of "+inv.label+" before abstraction")
				}
			}
			tag := e.freshName("abs." + a.Name)
			for _, cr := range cells {
				e.havocCell(st, cr, tag)
			}
			for _, d := range dyn {
				e.havocDyn(st, d, tag)
			}
			for _, cr := range dedupeObjects(e, cells) {
				for _, inv := range e.invariantsAt(st, cr.reg, cr.path, cr.typ, "") {
					st.assume(inv.t)
				}
			}
		}
		if a.Kind == "assert" {
			st.subMemo = nil
			st.memoShared = false
			e.assumeEnsures(st, env, a.Expr, nil, nil)
			continue
		}
		// forget everything but entry assumptions and cut lemmas
		st.labelHyps = nil
		keep := st.hyps[:st.entryH:st.entryH]
		st.hyps = append([]*Term{}, keep...)
		st.hypKeys = map[string]bool{}
		for _, h := range st.hyps {
			st.hypKeys[h.Key()] = true
		}
		// rewrite rules learnt since entry are forgotten as well; the lemma re-introduces what is needed
		st.subst = make(map[string]*Term, len(st.entrySubst))
		for k, v := range st.entrySubst {
			st.subst[k] = v
		}
		st.subMemo = nil
		st.memoShared = false
		st.nonzero = map[string]bool{}
		for k := range st.entryNonzero {
			st.nonzero[k] = true
		}
		// the lemma is re-evaluated over the raw current state (no rewrite rules) and assumed conjunct by
		// conjunct at the expression level, so that definitions are oriented afresh.  (It is equivalent to the
		// proved form, which was the same statement with equals substituted for equals.)
		e.assumeEnsures(st, env, a.Expr, nil, nil)
		st.entryH = len(st.hyps)
	}
}

func (e *Engine) touchesEmbeddedTable(fn *ssa.Function) bool {
	for _, b := range fn.Blocks {
		for _, in := range b.Instrs {
			for _, op := range in.Operands(nil) {
				if g, ok := (*op).(*ssa.Global); ok {
					if strings.HasPrefix(g.Name(), "generatorHugeAffineTable") {
						return true
					}
				}
			}
		}
	}
	return false
}

// hasNestedSpecs: a struct type some of whose fields (transitively, not through pointers) carry type specs.
func (e *Engine) hasNestedSpecs(t types.Type) bool {
	st, ok := underlying(t).(*types.Struct)
	if !ok {
		return false
	}
	var rec func(t types.Type) bool
	rec = func(t types.Type) bool {
		if e.typeSpecOf(t) != nil {
			return true
		}
		switch u := underlying(t).(type) {
		case *types.Struct:
			for i := 0; i < u.NumFields(); i++ {
				if rec(u.Field(i).Type()) {
					return true
				}
			}
		case *types.Array:
			return rec(u.Elem())
		case *types.Pointer:
			return e.typeSpecOf(u.Elem()) != nil
		}
		return false
	}
	for i := 0; i < st.NumFields(); i++ {
		if rec(st.Field(i).Type()) {
			return true
		}
	}
	return false
}

// foreignResult: the scalar result of the n-th call of a method of a foreign object (a symbol that depends on
// the object, the method and the call ordinal only, so that contracts can refer to it).
func foreignResult(st *State, iv *IfaceVal, method string, t types.Type, advance bool) *Term {
	key := "foreign:" + iv.obj + "." + method
	n := int64(1)
	if v, ok := st.ghost[key]; ok {
		n = v.(*Term).Val.Int64()
	}
	if advance {
		st.ghost[key] = mkInt64(n + 1)
	}
	lo, hi := intRange(t)
	return mkIntVarR(fmt.Sprintf("foreign$%s.%s#%d", iv.obj, method, n), lo, hi)
}

// orientDigits: the big-endian value of n bytes of a callee-created buffer equals x.  The base-256
// representation of a number is unique, so byte i of the buffer is digit i of x: select(A, o+i) is rewritten
// to select(be(n, x), i) from here on (uniqueness of positional notation: elementary, listed as trusted).
func (e *Engine) orientDigits(st *State, lt, x *Term) {
	if e.curContract == nil || !e.curContract.Options["digits"] {
		return // opt-in (contract clause `option digits`): it changes the normal form of byte values
	}
	arr, off, n, ok := beDigits(lt)
	if !ok || n < 2 {
		return
	}
	e.usedIntrinsic("base-256 digits")
	be := mkBe(n, x)
	for i := int64(0); i < n; i++ {
		st.addSubst(mkSelect(arr, mkInt64(off+i)), mkSelect(be, mkInt64(i)))
	}
}

// conjunctsOf splits a specification expression at its top-level `&&`.
func conjunctsOf(x ast.Expr) []ast.Expr {
	if p, ok := x.(*ast.ParenExpr); ok {
		return conjunctsOf(p.X)
	}
	if be, ok := x.(*ast.BinaryExpr); ok && be.Op == token.LAND {
		return append(conjunctsOf(be.X), conjunctsOf(be.Y)...)
	}
	return []ast.Expr{x}
}
