package main

// Replay of solver counterexamples against the real code.
//
// For a failed `ensures` obligation with a model, the replay
//   1. rebuilds the entry state of the function's variant and evaluates the postcondition over *placeholders* for
//      everything the function may change (the cells named in `modifies`, the results) -- the same term a caller
//      would be handed;
//   2. generates an in-package Go test (injected with `go test -overlay`, nothing is written to the repository) that
//      builds the inputs of the model in memory (limbs written through unsafe at the offsets go/types computes for
//      amd64), calls the real function, and dumps the placeholders' actual values (or the panic);
//   3. substitutes inputs and observed outputs into the postcondition and evaluates it.
// "failing_input_found" is reported only if the postcondition evaluates to the constant false on the real outputs
// (or the function panicked although the contract allows no panic).  Anything else -- unsupported parameter shapes
// (slices of symbolic length, interfaces), postconditions over abstract points or uninterpreted functions that do
// not evaluate to a constant, a model that the real code handles correctly -- is reported as not failing, with the
// log saying why; the VIOLATION line then keeps the suffix no-failing-input-found.

import (
	"encoding/json"
	"fmt"
	"go/types"
	"math/big"
	"os"
	"os/exec"
	"path/filepath"
	"regexp"
	"sort"
	"strconv"
	"strings"

	"golang.org/x/tools/go/ssa"
)

type ensuresTemplate struct {
	text string
	term *Term
}

type replayTemplates struct {
	ens     []ensuresTemplate
	args    []Value
	results []Value
	obsVars []obsVar // placeholders to read back
	inVars  []obsVar // symbolic input leaves to write
	plan    aliasPlan
	err     string
	// contents of the byte-slice parameters (by array variable name), filled in from the model
	sliceBytes map[string][]byte
}

type obsVar struct {
	name   string // variable name in the terms
	param  int    // parameter index (-1: result)
	result int    // result index (param == -1)
	off    int64  // byte offset inside the object
	size   int64  // 1, 2, 4, 8
	isBool bool
	direct bool // the parameter / result is the scalar itself
	// byte-slice parameter of symbolic length: name is the array variable, lenName / capName its length and capacity
	isSlice bool
	lenName string
	capName string
	// interface result (error): name is the Bool variable "the result is nil"
	ifaceNil bool
}

var pathSuffixRe = regexp.MustCompile(`/path=\d+$`)

var obligationNameRe = regexp.MustCompile(`^(.*)#ensures:(\d+)(?:\.\d+)?(?:/(.*?))?(?:/path=\d+)?$`)

func tryReplay(cfg runConfig, res *runResult, v *violation) *replayResult {
	rr := &replayResult{}
	logf := func(f string, a ...interface{}) { rr.Log = append(rr.Log, fmt.Sprintf(f, a...)) }
	if am := asmObligationRe.FindStringSubmatch(v.Obligation); am != nil {
		idx, _ := strconv.Atoi(am[2])
		return asmReplay(cfg.repo, am[1], idx)
	}
	if v.Kind == "safety" {
		if sr := sliceSafetyReplay(cfg, res, v); sr != nil {
			return sr
		}
	}
	m := obligationNameRe.FindStringSubmatch(pathSuffixRe.ReplaceAllString(v.Obligation, ""))
	if m == nil {
		logf("replay is implemented for `ensures` obligations only")
		return rr
	}
	if v.Status != "sat" || len(v.Model) == 0 {
		logf("the solver gave no model (status %s)", v.Status)
		return rr
	}
	e := res.engine
	fnShort, idx, variant := m[1], m[2], m[3]
	ei, _ := strconv.Atoi(idx)
	var fn *ssa.Function
	var c *Contract
	for _, k := range res.funcs {
		f := res.fnsByKey[k]
		if f == nil {
			continue
		}
		pkg, rel := e.funcKey(f)
		if pkg[strings.LastIndex(pkg, "/")+1:]+"."+rel == fnShort {
			fn, c = f, e.db.Contracts[k]
		}
	}
	if fn == nil || c == nil {
		logf("function %s not found", fnShort)
		return rr
	}
	if ei >= len(c.Ensures) {
		logf("ensures index out of range")
		return rr
	}
	var tp *replayTemplates
	func() {
		defer func() {
			if r := recover(); r != nil {
				tp = &replayTemplates{err: fmt.Sprint(r)}
			}
		}()
		tp = e.buildTemplates(fn, c, variant)
	}()
	if tp == nil || tp.err != "" {
		msg := "variant not found"
		if tp != nil {
			msg = tp.err
		}
		logf("no replay template: %s", msg)
		return rr
	}
	rr.Attempted = true
	// inputs from the model (missing variables are unconstrained: 0)
	sub := map[string]*Term{}
	inputDesc := []string{}
	var sliceIns []obsVar
	for _, iv := range tp.inVars {
		if iv.isSlice {
			sliceIns = append(sliceIns, iv)
		}
	}
	sliceBytes := map[string][]byte{}
	if len(sliceIns) > 0 {
		var arrs []string
		for _, iv := range sliceIns {
			arrs = append(arrs, iv.name)
		}
		m2 := explicitBytesModel(v.SMTFile, arrs)
		if m2 == nil {
			logf("the second solver run (byte positions made explicit) gave no model")
			rr.Attempted = false
			return rr
		}
		for k, val := range m2 {
			v.Model[k] = val
		}
		for _, iv := range sliceIns {
			ln, ok := new(big.Int).SetString(v.Model[iv.lenName], 10)
			if !ok {
				ln = big.NewInt(0)
			}
			if ln.Sign() < 0 || ln.Cmp(big.NewInt(sliceReplayMaxLen)) > 0 {
				logf("the model's %s = %s is outside the replay's range 0..%d", iv.lenName, ln, sliceReplayMaxLen)
				rr.Attempted = false
				return rr
			}
			n := int(ln.Int64())
			bs := make([]byte, n)
			arr := &Term{Op: "var", Sort: SArr, Name: iv.name + "!beyond", Lo: big0, Hi: big.NewInt(255)}
			for k := 0; k < n; k++ {
				if b, ok := new(big.Int).SetString(v.Model[fmt.Sprintf("rp!%s!%d", iv.name, k)], 10); ok {
					bs[k] = byte(new(big.Int).And(b, big.NewInt(255)).Int64())
				}
				arr = mkStore(arr, mkInt64(int64(k)), mkInt64(int64(bs[k])))
			}
			sliceBytes[iv.name] = bs
			sub[iv.name] = arr
			sub[iv.lenName] = mkInt64(int64(n))
			if iv.capName != "" {
				sub[iv.capName] = mkInt64(int64(n))
			}
			inputDesc = append(inputDesc, fmt.Sprintf("%s=%x (%d bytes)", strings.TrimSuffix(iv.name, "[]"), bs, n))
		}
	}
	for _, iv := range tp.inVars {
		if iv.isSlice {
			continue
		}
		val := big.NewInt(0)
		if s, ok := v.Model[iv.name]; ok {
			if iv.isBool {
				if s == "true" {
					val = big.NewInt(1)
				}
			} else if bv, ok := new(big.Int).SetString(s, 10); ok {
				val = bv
			}
		}
		if iv.isBool {
			sub[iv.name] = mkBool(val.Sign() != 0)
		} else {
			sub[iv.name] = mkInt(val)
		}
		inputDesc = append(inputDesc, fmt.Sprintf("%s=%s", iv.name, val.String()))
	}
	sort.Strings(inputDesc)
	rr.Input = strings.Join(inputDesc, " ")
	tp.sliceBytes = sliceBytes
	obs, panicMsg, err := runReplayHarness(cfg.repo, e, fn, tp, sub)
	if err != nil {
		logf("harness: %v", err)
		return rr
	}
	if panicMsg != "" {
		rr.Observed = "panic: " + panicMsg
		if len(c.Panics) == 0 {
			rr.Failing = true
			rr.Expected = "no panic is allowed by the contract"
		} else {
			logf("the real code panicked (%s); the contract allows panics under its `panics` clauses, not evaluated here", panicMsg)
		}
		return rr
	}
	nilRes := map[int]bool{}
	for k := range obs {
		if strings.HasPrefix(k, "NIL!") {
			if n, err := strconv.Atoi(strings.TrimPrefix(k, "NIL!")); err == nil {
				nilRes[n] = true
			}
			delete(obs, k)
		}
	}
	if len(nilRes) > 0 {
		// the postcondition has to be evaluated with those results being nil pointers, not fresh objects
		var tp2 *replayTemplates
		func() {
			defer func() {
				if r := recover(); r != nil {
					tp2 = &replayTemplates{err: fmt.Sprint(r)}
				}
			}()
			e.templateNilResults = nilRes
			defer func() { e.templateNilResults = nil }()
			tp2 = e.buildTemplates(fn, c, variant)
		}()
		if tp2 == nil || tp2.err != "" || ei >= len(tp2.ens) {
			logf("the real call returned nil results; the postcondition could not be re-evaluated for that outcome")
			return rr
		}
		tp = tp2
	}
	var od []string
	for k := range nilRes {
		od = append(od, fmt.Sprintf("result%d=nil", k))
	}
	for k, val := range obs {
		sub[k] = val
		od = append(od, k+"="+val.Key())
	}
	sort.Strings(od)
	rr.Observed = strings.Join(od, " ")
	t := substitute(tp.ens[ei].term, sub)
	rr.Expected = c.Ensures[ei].Text
	switch {
	case t.IsConst() && t.Val.Sign() == 0:
		rr.Failing = true
		logf("postcondition evaluates to false on the outputs of the real code")
	case t.IsConst():
		logf("the real code satisfies the postcondition on the model's input: the model is not a failing input (obligation undischarged, not refuted by execution)")
	default:
		logf("postcondition does not evaluate to a constant on concrete values (abstract group terms or uninterpreted functions): undecided by replay; residual: %s", trunc(pretty(t, 4), 300))
	}
	return rr
}

// buildTemplates re-creates the entry state of the named variant and evaluates the ensures clauses over placeholders.
func (e *Engine) buildTemplates(fn *ssa.Function, c *Contract, variant string) *replayTemplates {
	e.templateMode = true
	e.templateOut = nil
	defer func() { e.templateMode = false }()
	pkg, rel := e.funcKey(fn)
	e.curFunc = pkg[strings.LastIndex(pkg, "/")+1:] + "." + rel
	e.curContract = c
	plans := e.aliasPlans(fn, c)
	cases := e.splitCases(c)
	for _, plan := range plans {
		for _, sc := range cases {
			var labs []string
			if plan.label != "" {
				labs = append(labs, "alias="+plan.label)
			}
			if sc.label != "" {
				labs = append(labs, sc.label)
			}
			if strings.Join(labs, ";") != variant {
				continue
			}
			e.variant = variant
			e.verifyVariant(fn, c, plan, sc)
			e.variant = ""
			if e.templateOut != nil {
				e.templateOut.plan = plan
			}
			return e.templateOut
		}
	}
	return nil
}

// contractTemplate is called by verifyVariant in template mode, in the entry state.
func (e *Engine) contractTemplate(st *State, fn *ssa.Function, c *Contract, args []Value) {
	tp := &replayTemplates{args: args}
	e.templateOut = tp
	sizes := types.SizesFor("gc", "amd64")
	// input leaves
	for i, p := range fn.Params {
		if err := collectLeaves(e, st, sizes, args[i], p.Type(), p.Name(), i, -1, &tp.inVars); err != "" {
			tp.err = err
			return
		}
	}
	pre := st.fork()
	env := e.specEnv(st, pre, fn, c, args)
	// placeholders for what may change
	for _, m := range c.Modifies {
		for _, x := range m.Exprs {
			if _, isGhost := env.ghostStateItem(x); isGhost {
				tp.err = "the contract modifies the abstract state of a stream / hash object"
				return
			}
			cells, dyn := env.lvalueCells(x)
			if len(dyn) > 0 {
				tp.err = "the contract modifies a buffer of symbolic length"
				return
			}
			for _, cr := range cells {
				if !isScalarType(cr.typ) {
					tp.err = "the contract modifies a non-scalar cell (" + cr.typ.String() + ")"
					return
				}
				e.havocCell(st, cr, "obs")
			}
		}
	}
	// read-back list: every leaf of every pointer parameter, in the post state
	for i, p := range fn.Params {
		var leaves []obsVar
		if err := collectLeaves(e, st, sizes, args[i], p.Type(), p.Name(), i, -1, &leaves); err != "" {
			tp.err = err
			return
		}
		for _, l := range leaves {
			if strings.HasPrefix(l.name, "obs.") {
				tp.obsVars = append(tp.obsVars, l)
			}
		}
	}
	rs := fn.Signature.Results()
	results := make([]Value, rs.Len())
	for i := 0; i < rs.Len(); i++ {
		rt := rs.At(i).Type()
		switch u := underlying(rt).(type) {
		case *types.Basic:
			if u.Info()&types.IsString != 0 {
				tp.err = "string result"
				return
			}
			results[i] = e.symbolicScalar(fmt.Sprintf("obsres%d", i), rt)
			tp.obsVars = append(tp.obsVars, obsVar{name: fmt.Sprintf("obsres%d", i), param: -1, result: i, size: sizes.Sizeof(rt), isBool: u.Info()&types.IsBoolean != 0, direct: true})
		case *types.Pointer:
			if e.templateNilResults[i] {
				// the real call returned nil here (second template pass, after the execution)
				results[i] = &PtrVal{null: true, typ: rt}
				break
			}
			results[i] = e.symbolicResult(st, rt, fmt.Sprintf("obsres%d", i), true)
			if err := collectLeaves(e, st, sizes, results[i], rt, fmt.Sprintf("obsres%d", i), -1, i, &tp.obsVars); err != "" {
				tp.err = err
				return
			}
		case *types.Interface:
			iv, ok := e.symbolicResult(st, rt, fmt.Sprintf("obsres%d", i), true).(*IfaceVal)
			if !ok || iv.null == nil || iv.null.Op != "var" {
				tp.err = "interface result without a nil flag"
				return
			}
			results[i] = iv
			tp.obsVars = append(tp.obsVars, obsVar{name: iv.null.Name, param: -1, result: i, isBool: true, ifaceNil: true})
		default:
			tp.err = "result type " + rt.String() + " is not supported by the replay"
			return
		}
	}
	tp.results = results
	env.results = results
	for _, en := range c.Ensures {
		var t *Term
		func() {
			defer func() {
				if r := recover(); r != nil {
					t = nil
				}
			}()
			t = st.sub(env.boolTerm(en.Expr))
		}()
		if t == nil {
			tp.err = "postcondition cannot be evaluated over placeholders: " + en.Text
			return
		}
		tp.ens = append(tp.ens, ensuresTemplate{text: en.Text, term: t})
	}
}

// collectLeaves lists the scalar leaves of a parameter / result value with their byte offsets.
func collectLeaves(e *Engine, st *State, sizes types.Sizes, v Value, t types.Type, name string, param, result int, out *[]obsVar) string {
	switch x := v.(type) {
	case *Term:
		if x.Op != "var" {
			return "" // constant parameter (value split)
		}
		b, _ := underlying(t).(*types.Basic)
		*out = append(*out, obsVar{name: x.Name, param: param, result: result, size: sizes.Sizeof(t), isBool: b != nil && b.Info()&types.IsBoolean != 0, direct: true})
		return ""
	case *PtrVal:
		if x.null {
			return ""
		}
		if x.reg.dyn || len(x.path) != 0 {
			return "pointer parameter " + name + " into a dynamic or interior region"
		}
		pt, ok := underlying(t).(*types.Pointer)
		if !ok {
			return "unexpected pointer value for " + name
		}
		bad := ""
		leafOffsets(sizes, pt.Elem(), 0, nil, func(path []int, lt types.Type, off int64) {
			if bad != "" {
				return
			}
			if !isScalarType(lt) {
				if _, isUP := underlying(lt).(*types.Basic); !isUP {
					bad = "field " + pathName(pt.Elem(), path) + " of " + name + " is not a scalar (" + lt.String() + ")"
				}
				return
			}
			cell, ok := st.mem.cells[pathKey(x.reg.id, path)].(*Term)
			if !ok || cell.Op != "var" {
				return
			}
			b, _ := underlying(lt).(*types.Basic)
			*out = append(*out, obsVar{name: cell.Name, param: param, result: result, off: off, size: sizes.Sizeof(lt), isBool: b != nil && b.Info()&types.IsBoolean != 0})
		})
		return bad
	}
	if x, ok := v.(*SliceVal); ok {
		if x.reg == nil {
			return "" // nil slice in this variant
		}
		sl, isSl := underlying(t).(*types.Slice)
		if !isSl || !x.reg.dyn {
			return "slice parameter " + name + " is not a buffer of symbolic length"
		}
		if b, ok := underlying(sl.Elem()).(*types.Basic); !ok || b.Kind() != types.Uint8 {
			return "slice parameter " + name + " is not a byte slice"
		}
		arr, ok := st.mem.cells[pathKey(x.reg.id, nil)].(*Term)
		if !ok || arr.Op != "var" || x.length.Op != "var" || !x.off.IsConst() || x.off.Val.Sign() != 0 {
			return "" // already written / a window: not an input leaf
		}
		ov := obsVar{name: arr.Name, param: param, result: result, isSlice: true, lenName: x.length.Name}
		if x.capacity != nil && x.capacity.Op == "var" {
			ov.capName = x.capacity.Name
		}
		*out = append(*out, ov)
		return ""
	}
	return fmt.Sprintf("parameter %s of type %s is not supported by the replay", name, t)
}

func leafOffsets(sizes types.Sizes, t types.Type, base int64, prefix []int, f func(path []int, lt types.Type, off int64)) {
	switch u := underlying(t).(type) {
	case *types.Struct:
		var fs []*types.Var
		for i := 0; i < u.NumFields(); i++ {
			fs = append(fs, u.Field(i))
		}
		offs := sizes.Offsetsof(fs)
		for i := range fs {
			leafOffsets(sizes, fs[i].Type(), base+offs[i], extend(prefix, i), f)
		}
	case *types.Array:
		es := sizes.Sizeof(u.Elem())
		for i := int64(0); i < u.Len(); i++ {
			leafOffsets(sizes, u.Elem(), base+i*es, extend(prefix, int(i)), f)
		}
	default:
		f(prefix, t, base)
	}
}

// runReplayHarness executes the real function on the model's input.
func runReplayHarness(repo string, e *Engine, fn *ssa.Function, tp *replayTemplates, sub map[string]*Term) (map[string]*Term, string, error) {
	pkgPath := fn.Pkg.Pkg.Path()
	rel := strings.TrimPrefix(strings.TrimPrefix(pkgPath, e.modPath), "/")
	imports := map[string]string{}
	qual := func(p *types.Package) string {
		if p.Path() == pkgPath {
			return ""
		}
		imports[p.Path()] = p.Name()
		return p.Name()
	}
	var sb strings.Builder
	var body strings.Builder
	isMethod := fn.Signature.Recv() != nil
	argNames := make([]string, len(fn.Params))
	for i, p := range fn.Params {
		if r, ok := tp.plan.rep[i]; ok && r != i {
			argNames[i] = argNames[r]
			continue
		}
		an := fmt.Sprintf("a%d", i)
		argNames[i] = an
		switch u := underlying(p.Type()).(type) {
		case *types.Pointer:
			if pv, ok := tp.args[i].(*PtrVal); ok && pv.null {
				fmt.Fprintf(&body, "\tvar %s %s\n", an, types.TypeString(p.Type(), qual))
			} else {
				fmt.Fprintf(&body, "\t%s := new(%s)\n", an, types.TypeString(u.Elem(), qual))
			}
		case *types.Slice:
			done := false
			for _, iv := range tp.inVars {
				if iv.isSlice && iv.param == i {
					var bs []string
					for _, b := range tp.sliceBytes[iv.name] {
						bs = append(bs, fmt.Sprintf("0x%02x", b))
					}
					fmt.Fprintf(&body, "\t%s := []byte{%s}\n", an, strings.Join(bs, ", "))
					done = true
				}
			}
			if !done {
				fmt.Fprintf(&body, "\tvar %s %s\n", an, types.TypeString(p.Type(), qual))
			}
		default:
			fmt.Fprintf(&body, "\tvar %s %s\n", an, types.TypeString(p.Type(), qual))
		}
	}
	for _, iv := range tp.inVars {
		if iv.isSlice {
			continue
		}
		val := sub[iv.name]
		if val == nil {
			continue
		}
		num := "0"
		if iv.isBool {
			if val.Val.Sign() != 0 {
				num = "1"
			}
		} else {
			num = new(big.Int).And(val.Val, new(big.Int).Sub(new(big.Int).Lsh(big1, uint(8*iv.size)), big1)).String()
		}
		an := argNames[iv.param]
		if iv.direct {
			fmt.Fprintf(&body, "\tverifPut(unsafe.Pointer(&%s), 0, %d, %s)\n", an, iv.size, num)
		} else {
			fmt.Fprintf(&body, "\tverifPut(unsafe.Pointer(%s), %d, %d, %s)\n", an, iv.off, iv.size, num)
		}
	}
	// call
	nres := fn.Signature.Results().Len()
	var lhs []string
	for i := 0; i < nres; i++ {
		lhs = append(lhs, fmt.Sprintf("r%d", i))
	}
	call := ""
	if isMethod {
		call = fmt.Sprintf("%s.%s(%s)", argNames[0], fn.Name(), strings.Join(argNames[1:], ", "))
	} else {
		call = fmt.Sprintf("%s(%s)", fn.Name(), strings.Join(argNames, ", "))
	}
	if nres > 0 {
		fmt.Fprintf(&body, "\t%s := %s\n", strings.Join(lhs, ", "), call)
	} else {
		fmt.Fprintf(&body, "\t%s\n", call)
	}
	// read back
	for _, ov := range tp.obsVars {
		var src string
		if ov.ifaceNil {
			fmt.Fprintf(&body, "\tif r%d == nil {\n\t\tfmt.Fprintf(out, \"%s 1\\n\")\n\t} else {\n\t\tfmt.Fprintf(out, \"%s 0\\n\")\n\t}\n", ov.result, ov.name, ov.name)
			continue
		}
		if ov.param >= 0 {
			src = fmt.Sprintf("unsafe.Pointer(%s)", argNames[ov.param])
		} else if ov.direct {
			src = fmt.Sprintf("unsafe.Pointer(&r%d)", ov.result)
		} else {
			fmt.Fprintf(&body, "\tif r%d == nil {\n\t\tfmt.Fprintf(out, \"NIL %%d\\n\", %d)\n\t} else {\n", ov.result, ov.result)
			fmt.Fprintf(&body, "\t\tfmt.Fprintf(out, \"%s %%d\\n\", verifGet(unsafe.Pointer(r%d), %d, %d))\n\t}\n", ov.name, ov.result, ov.off, ov.size)
			continue
		}
		fmt.Fprintf(&body, "\tfmt.Fprintf(out, \"%s %%d\\n\", verifGet(%s, %d, %d))\n", ov.name, src, ov.off, ov.size)
	}
	for i := 0; i < nres; i++ {
		fmt.Fprintf(&body, "\t_ = r%d\n", i)
	}
	fmt.Fprintf(&sb, "package %s\n\nimport (\n\t\"fmt\"\n\t\"os\"\n\t\"testing\"\n\t\"unsafe\"\n", fn.Pkg.Pkg.Name())
	var ips []string
	for p := range imports {
		ips = append(ips, p)
	}
	sort.Strings(ips)
	for _, p := range ips {
		fmt.Fprintf(&sb, "\t%s %q\n", imports[p], p)
	}
	sb.WriteString(")\n\n")
	sb.WriteString(`func verifPut(p unsafe.Pointer, off uintptr, size int, v uint64) {
	for i := 0; i < size; i++ {
		*(*byte)(unsafe.Add(p, off+uintptr(i))) = byte(v >> (8 * uint(i)))
	}
}

func verifGet(p unsafe.Pointer, off uintptr, size int) uint64 {
	var v uint64
	for i := 0; i < size; i++ {
		v |= uint64(*(*byte)(unsafe.Add(p, off+uintptr(i)))) << (8 * uint(i))
	}
	return v
}

func TestVerifReplay(t *testing.T) {
	out, err := os.Create(os.Getenv("VERIF_REPLAY_OUT"))
	if err != nil {
		t.Fatal(err)
	}
	defer out.Close()
	defer func() {
		if r := recover(); r != nil {
			fmt.Fprintf(out, "PANIC %v\n", r)
		}
	}()
`)
	sb.WriteString(body.String())
	sb.WriteString("}\n")
	tmp, err := os.MkdirTemp("", "vcgo-replay-")
	if err != nil {
		return nil, "", err
	}
	defer os.RemoveAll(tmp)
	testFile := filepath.Join(tmp, "zz_verif_replay_test.go")
	_ = os.WriteFile(testFile, []byte(sb.String()), 0o644)
	ov := map[string]interface{}{"Replace": map[string]string{filepath.Join(repo, rel, "zz_verif_replay_test.go"): testFile}}
	ovb, _ := json.Marshal(ov)
	ovFile := filepath.Join(tmp, "ov.json")
	_ = os.WriteFile(ovFile, ovb, 0o644)
	outFile := filepath.Join(tmp, "out.txt")
	cmd := exec.Command("go", "test", "-tags", "purego", "-overlay", ovFile, "-vet=off", "-count=1", "-timeout", "60s", "-run", "^TestVerifReplay$", ".")
	cmd.Dir = filepath.Join(repo, rel)
	cmd.Env = append(os.Environ(), "GOFLAGS=-mod=mod", "GOPROXY=off", "GOSUMDB=off", "GOTOOLCHAIN=local", "VERIF_REPLAY_OUT="+outFile)
	if b, err := cmd.CombinedOutput(); err != nil {
		return nil, "", fmt.Errorf("replay test did not run: %v: %s", err, trunc(string(b), 500))
	}
	data, err := os.ReadFile(outFile)
	if err != nil {
		return nil, "", err
	}
	obs := map[string]*Term{}
	panicMsg := ""
	isBool := map[string]bool{}
	for _, ov := range tp.obsVars {
		isBool[ov.name] = ov.isBool
	}
	for _, ln := range strings.Split(strings.TrimSpace(string(data)), "\n") {
		if strings.HasPrefix(ln, "PANIC ") {
			panicMsg = strings.TrimPrefix(ln, "PANIC ")
			continue
		}
		f := strings.SplitN(ln, " ", 2)
		if len(f) == 2 && f[0] == "NIL" {
			obs["NIL!"+strings.TrimSpace(f[1])] = mkBool(true) // pointer result f[1] is nil
			continue
		}
		if len(f) != 2 {
			continue
		}
		val, ok := new(big.Int).SetString(strings.TrimSpace(f[1]), 10)
		if !ok {
			continue
		}
		if isBool[f[0]] {
			obs[f[0]] = mkBool(val.Sign() != 0)
		} else {
			obs[f[0]] = mkInt(val)
		}
	}
	return obs, panicMsg, nil
}
