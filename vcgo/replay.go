package main

// Replay of solver counterexamples against the real code (overlay test injection).

func tryReplay(cfg runConfig, res *runResult, v *violation) *replayResult {
	return &replayResult{Attempted: false, Log: []string{"no replay harness for this obligation kind yet"}}
}
