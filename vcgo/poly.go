package main

// Polynomial normal form shared by Int (no modulus), Fp and Fn.  Atoms are arbitrary non-polynomial
// terms of the same sort.  Exponents are big integers so that x^(P-2) is one monomial.

import (
	"math/big"
	"sort"
	"strings"
)

type monoFactor struct {
	atom *Term
	exp  *big.Int
}

type Mono struct {
	f   []monoFactor // sorted by atom key
	key string
}

func (m *Mono) Key() string {
	if m.key == "" && len(m.f) > 0 {
		var sb strings.Builder
		for i, f := range m.f {
			if i > 0 {
				sb.WriteString("*")
			}
			sb.WriteString(f.atom.Key())
			if f.exp.Cmp(big1) != 0 {
				sb.WriteString("^" + f.exp.String())
			}
		}
		m.key = shortKey(sb.String())
	}
	return m.key
}

func monoMul(a, b *Mono) *Mono {
	out := make([]monoFactor, 0, len(a.f)+len(b.f))
	i, j := 0, 0
	for i < len(a.f) && j < len(b.f) {
		ka, kb := a.f[i].atom.Key(), b.f[j].atom.Key()
		switch {
		case ka == kb:
			out = append(out, monoFactor{a.f[i].atom, new(big.Int).Add(a.f[i].exp, b.f[j].exp)})
			i++
			j++
		case ka < kb:
			out = append(out, a.f[i])
			i++
		default:
			out = append(out, b.f[j])
			j++
		}
	}
	out = append(out, a.f[i:]...)
	out = append(out, b.f[j:]...)
	return &Mono{f: out}
}

type polyTerm struct {
	m *Mono
	c *big.Int
}

type Poly struct {
	sort Sort
	t    map[string]polyTerm
	key  string
}

func newPoly(s Sort) *Poly { return &Poly{sort: s, t: map[string]polyTerm{}} }

func (p *Poly) norm(c *big.Int) *big.Int {
	if m := modulusOf(p.sort); m != nil {
		return new(big.Int).Mod(c, m)
	}
	return c
}

func (p *Poly) addTerm(m *Mono, c *big.Int) {
	k := m.Key()
	if e, ok := p.t[k]; ok {
		n := p.norm(new(big.Int).Add(e.c, c))
		if n.Sign() == 0 {
			delete(p.t, k)
		} else {
			p.t[k] = polyTerm{e.m, n}
		}
		return
	}
	n := p.norm(new(big.Int).Set(c))
	if n.Sign() != 0 {
		p.t[k] = polyTerm{m, n}
	}
}

func polyConst(s Sort, c *big.Int) *Poly {
	p := newPoly(s)
	p.addTerm(&Mono{}, c)
	return p
}

func polyAtom(a *Term) *Poly {
	p := newPoly(a.Sort)
	p.addTerm(&Mono{f: []monoFactor{{a, big1}}}, big1)
	return p
}

func (p *Poly) sortedKeys() []string {
	ks := make([]string, 0, len(p.t))
	for k := range p.t {
		ks = append(ks, k)
	}
	sort.Strings(ks)
	return ks
}

func (p *Poly) Key() string {
	if p.key == "" {
		var sb strings.Builder
		sb.WriteString("[" + p.sort.String()[:2])
		for _, k := range p.sortedKeys() {
			e := p.t[k]
			sb.WriteString(" ")
			sb.WriteString(e.c.String())
			if k != "" {
				sb.WriteString("·" + k)
			}
		}
		sb.WriteString("]")
		p.key = shortKey(sb.String())
	}
	return p.key
}

func (p *Poly) IsConst() (*big.Int, bool) {
	switch len(p.t) {
	case 0:
		return big0, true
	case 1:
		if e, ok := p.t[""]; ok {
			return e.c, true
		}
	}
	return nil, false
}

func (p *Poly) IsAtom() *Term {
	if len(p.t) != 1 {
		return nil
	}
	for _, e := range p.t {
		if len(e.m.f) == 1 && e.m.f[0].exp.Cmp(big1) == 0 && e.c.Cmp(big1) == 0 {
			return e.m.f[0].atom
		}
	}
	return nil
}

func (p *Poly) Add(q *Poly) *Poly {
	r := newPoly(p.sort)
	for k, e := range p.t {
		r.t[k] = e
	}
	for _, e := range q.t {
		r.addTerm(e.m, e.c)
	}
	return r
}

func (p *Poly) Scale(k *big.Int) *Poly {
	r := newPoly(p.sort)
	for _, e := range p.t {
		r.addTerm(e.m, new(big.Int).Mul(e.c, k))
	}
	return r
}

func (p *Poly) Mul(q *Poly) *Poly {
	r := newPoly(p.sort)
	for _, a := range p.t {
		for _, b := range q.t {
			r.addTerm(monoMul(a.m, b.m), new(big.Int).Mul(a.c, b.c))
		}
	}
	return r
}

// PowMono returns p^e when p is a single monomial (coefficient included), else nil.
func (p *Poly) PowMono(e *big.Int) *Poly {
	if e.Sign() == 0 {
		return polyConst(p.sort, big1)
	}
	if len(p.t) == 0 {
		return p
	}
	if len(p.t) != 1 {
		return nil
	}
	for _, t := range p.t {
		var c *big.Int
		if m := modulusOf(p.sort); m != nil {
			c = new(big.Int).Exp(t.c, e, m)
		} else {
			if e.BitLen() > 12 {
				return nil
			}
			c = new(big.Int).Exp(t.c, e, nil)
		}
		f := make([]monoFactor, len(t.m.f))
		for i, x := range t.m.f {
			f[i] = monoFactor{x.atom, new(big.Int).Mul(x.exp, e)}
		}
		r := newPoly(p.sort)
		r.addTerm(&Mono{f: f}, c)
		return r
	}
	return nil
}

func (p *Poly) Atoms() []*Term {
	seen := map[string]bool{}
	var out []*Term
	for _, k := range p.sortedKeys() {
		for _, f := range p.t[k].m.f {
			if !seen[f.atom.Key()] {
				seen[f.atom.Key()] = true
				out = append(out, f.atom)
			}
		}
	}
	return out
}

// Range of an Int polynomial from the ranges of its atoms (nil = unknown).
func (p *Poly) Range() (lo, hi *big.Int) {
	lo, hi = new(big.Int), new(big.Int)
	for _, e := range p.t {
		mlo, mhi := big1, big1
		for _, f := range e.m.f {
			alo, ahi := rangeOf(f.atom)
			if alo == nil || ahi == nil || alo.Sign() < 0 || f.exp.BitLen() > 8 {
				return nil, nil
			}
			ex := f.exp
			mlo = new(big.Int).Mul(mlo, new(big.Int).Exp(alo, ex, nil))
			mhi = new(big.Int).Mul(mhi, new(big.Int).Exp(ahi, ex, nil))
		}
		if e.c.Sign() >= 0 {
			lo.Add(lo, new(big.Int).Mul(e.c, mlo))
			hi.Add(hi, new(big.Int).Mul(e.c, mhi))
		} else {
			lo.Add(lo, new(big.Int).Mul(e.c, mhi))
			hi.Add(hi, new(big.Int).Mul(e.c, mlo))
		}
	}
	return lo, hi
}

// DropMultiples removes summands whose coefficient is divisible by k and reduces the others mod k
// (valid under "mod k").
func (p *Poly) DropMultiples(k *big.Int) *Poly {
	r := newPoly(p.sort)
	for _, e := range p.t {
		c := new(big.Int).Mod(e.c, k)
		if c.Sign() != 0 {
			r.addTerm(e.m, c)
		}
	}
	return r
}

func (p *Poly) SignNormalise() *Poly {
	ks := p.sortedKeys()
	if len(ks) == 0 {
		return p
	}
	lead := p.t[ks[len(ks)-1]].c
	if modulusOf(p.sort) != nil {
		return p
	}
	if lead.Sign() < 0 {
		return p.Scale(big.NewInt(-1))
	}
	return p
}

// MapToRing maps an Int polynomial homomorphically into Fp / Fn.
func (p *Poly) MapToRing(s Sort) *Poly {
	r := polyConst(s, big0)
	for _, e := range p.t {
		m := polyConst(s, e.c)
		for _, f := range e.m.f {
			var at *Term
			a := f.atom
			if a.Op == "app" && a.Name == "lift" && a.Args[0].Sort == s {
				at = a.Args[0]
			} else {
				at = &Term{Op: "app", Sort: s, Name: "toring", Args: []*Term{a}}
			}
			ap := polyOf(at)
			pw := ap.PowMono(f.exp)
			if pw == nil {
				pw = polyConst(s, big1)
				for i := int64(0); i < f.exp.Int64(); i++ {
					pw = pw.Mul(ap)
				}
			}
			m = m.Mul(pw)
		}
		r = r.Add(m)
	}
	return r
}

// fromPolySubst rebuilds p with rec applied to its atoms.  nz lists atoms (by key) known to be non-zero
// residues: for those x^(M-1) = 1 (Fermat; M prime), so exponents are reduced modulo M-1.
func fromPolySubst(p *Poly, rec func(*Term) *Term, nz map[string]bool) *Term {
	changed := false
	var m1 *big.Int
	if md := modulusOf(p.sort); md != nil && len(nz) > 0 {
		m1 = new(big.Int).Sub(md, big1)
	}
	res := mkRingConst(p.sort, big0)
	type pend struct {
		c *big.Int
		m *Mono
	}
	var items []pend
	for _, k := range p.sortedKeys() {
		e := p.t[k]
		for _, f := range e.m.f {
			if rec(f.atom) != f.atom {
				changed = true
			}
			if m1 != nil && f.exp.Cmp(m1) >= 0 && nz[rec(f.atom).Key()] {
				changed = true
			}
		}
		items = append(items, pend{e.c, e.m})
	}
	if !changed {
		return fromPoly(p)
	}
	for _, it := range items {
		t := mkRingConst(p.sort, it.c)
		for _, f := range it.m.f {
			a, ex := rec(f.atom), f.exp
			if m1 != nil && ex.Cmp(m1) >= 0 && nz[a.Key()] {
				ex = new(big.Int).Mod(ex, m1)
				if ex.Sign() == 0 {
					continue
				}
			}
			t = mkMul(t, mkPow(a, ex))
		}
		res = mkAdd(res, t)
	}
	return res
}
