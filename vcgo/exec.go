package main

// Symbolic execution of go/ssa function bodies.

import (
	"fmt"
	"go/constant"
	"go/token"
	"go/types"
	"math/big"
	"os"
	"path/filepath"
	"runtime"
	"sort"
	"strconv"
	"strings"
	"time"

	"golang.org/x/tools/go/ssa"
)

type Obligation struct {
	Name    string
	Kind    string // ensures requires safety invariant assert frame panics inv cover
	Func    string
	Props   []string
	Hyps    []*Term
	From    []*Term // proof hint: a subset of Hyps tried first (sound: hypotheses are only dropped)
	Goal    *Term
	Alt     *Term // optional stronger goal tried first
	NIA     bool
	Text    string
	Where   string
	Result  *SolveResult
	Variant string
	Timeout int
	Inputs  map[string]string // description of entry symbols (for replay)
}

type Engine struct {
	staticBinds        map[*ssa.Function]map[string]int
	poisoned           map[int]string // regions of package-level variables whose initial value could not be computed
	initErrors         []string
	tier               string
	curFrom            []string // proof hint of the assert being generated
	templateMode       bool     // replay: stop after building the entry state and evaluate the ensures over placeholders
	templateOut        *replayTemplates
	templateNilResults map[int]bool // replay, second pass: pointer results the real call returned as nil
	curContract        *Contract    // contract of the function being verified
	nilBytes           *Region      // backing of the empty byte string that stands for nil slices in DER predicates
	prog               *ssa.Program
	pkgs               map[string]*ssa.Package
	db                 *SpecDB
	modPath            string
	regionN            int
	varN               int
	obls               []*Obligation
	oblNames           map[string]int
	globals            map[*ssa.Global]*Region
	gmem               *Memory // initial memory of globals after package initialisation
	ginit              map[string]bool
	concrete           bool // ground evaluation mode (package initialisers)
	curProps           []string
	curFunc            string
	variant            string
	inlined            map[string]bool
	trusted            map[string]string
	errors             []string
	maxSteps           int
	steps              int
	strRegs            map[string]*Region
	embed              map[string][]byte
	skipInit           map[string]bool
	sizes              types.Sizes
	windows            map[int]*windowInfo
	tableRegions       []*Region
	eagerPrune         bool
	tables             *tableData
	repoDir            string
	aggRegions         map[*AggVal]*Region
	lastProgress       time.Time
	familyRegs         map[string]*Region
	localsBase         localsBaseline      // spec/locals.baseline.json
	curAliases         map[string][]string // current local name -> baseline names it replaces (function being verified)
	deadline           time.Time
	feasN              int
	inlinedExt         map[string]bool
	anyReturn          bool
	usedIntr           map[string]bool
	usedLemmas         map[string]bool
}

type State struct {
	mem             *Memory
	hyps            []*Term
	hypKeys         map[string]bool
	entryH          int // number of hyps that are entry assumptions (kept across cuts)
	subst           map[string]*Term
	names           map[string]Value // source-level local names (from DebugRef)
	cuts            map[string]bool
	subMemo         map[string]*Term
	memoShared      bool
	written         map[string]bool // cells stored to since entry (even if the old value was stored back)
	pendingForkName string
	labelHyps       map[string][2]int // facts introduced by a labelled clause: index range in hyps
	pendingFork     *Term             // case split requested by a `fork` clause, taken after the current instruction
	entryNonzero    map[string]bool
	nonzero         map[string]bool  // residue atoms known to be non-zero (exponents reduce by Fermat)
	entrySubst      map[string]*Term // rewrite rules known at function entry (restored at a forgetting cut)
	binds           map[string]int   // number of distinct values bound to a source-level name so far
	lastBind        map[string]ssa.Value
	visits          map[*ssa.BasicBlock]int // symbolic forks per block on this path (loops without invariant)
	weak            map[string]bool
	inLoop          map[*ssa.BasicBlock]bool
	ghost           map[string]Value
	epoch           int
	trace           []string
}

// markLabel records that the hypotheses added since index h0 were introduced by the clause `name`.
func (s *State) markLabel(name string, h0 int) {
	if name == "" || h0 > len(s.hyps) {
		return
	}
	if s.labelHyps == nil {
		s.labelHyps = map[string][2]int{}
	}
	s.labelHyps[name] = [2]int{h0, len(s.hyps)}
}

func (s *State) fork() *State {
	n := &State{mem: s.mem.clone(), hyps: s.hyps[:len(s.hyps):len(s.hyps)], entryH: s.entryH, epoch: s.epoch}
	n.hypKeys = make(map[string]bool, len(s.hypKeys))
	for k := range s.hypKeys {
		n.hypKeys[k] = true
	}
	n.subst = make(map[string]*Term, len(s.subst))
	for k, v := range s.subst {
		n.subst[k] = v
	}
	n.names = make(map[string]Value, len(s.names))
	for k, v := range s.names {
		n.names[k] = v
	}
	n.cuts = make(map[string]bool, len(s.cuts))
	for k := range s.cuts {
		n.cuts[k] = true
	}
	n.entrySubst = s.entrySubst
	if len(s.labelHyps) > 0 {
		n.labelHyps = make(map[string][2]int, len(s.labelHyps))
		for k, v := range s.labelHyps {
			n.labelHyps[k] = v
		}
	}
	if len(s.written) > 0 {
		n.written = make(map[string]bool, len(s.written))
		for k := range s.written {
			n.written[k] = true
		}
	}
	n.entryNonzero = s.entryNonzero
	if len(s.nonzero) > 0 {
		n.nonzero = make(map[string]bool, len(s.nonzero))
		for k := range s.nonzero {
			n.nonzero[k] = true
		}
	}
	// the memo of rewritten terms is shared until one side learns a new rule
	n.subMemo = s.subMemo
	if s.subMemo != nil {
		s.memoShared, n.memoShared = true, true
	}
	n.binds = make(map[string]int, len(s.binds))
	for k, v := range s.binds {
		n.binds[k] = v
	}
	n.lastBind = make(map[string]ssa.Value, len(s.lastBind))
	for k, v := range s.lastBind {
		n.lastBind[k] = v
	}
	n.visits = make(map[*ssa.BasicBlock]int, len(s.visits))
	for k, v := range s.visits {
		n.visits[k] = v
	}
	n.weak = make(map[string]bool, len(s.weak))
	for k := range s.weak {
		n.weak[k] = true
	}
	n.inLoop = make(map[*ssa.BasicBlock]bool, len(s.inLoop))
	for k := range s.inLoop {
		n.inLoop[k] = true
	}
	n.ghost = make(map[string]Value, len(s.ghost))
	for k, v := range s.ghost {
		n.ghost[k] = v
	}
	n.trace = s.trace[:len(s.trace):len(s.trace)]
	return n
}

func (s *State) assume(t *Term) {
	t = s.sub(t)
	if t.IsConst() && t.Val.Sign() != 0 {
		return
	}
	if t.Op == "and" {
		for _, a := range t.Args {
			s.assume(a)
		}
		return
	}
	k := t.Key()
	if s.hypKeys[k] {
		return
	}
	// equalities between abstract points with a representation atom on one side act as rewrite rules
	if t.Op == "=" && len(t.Args) == 2 && t.Args[0].Sort == SPt {
		a, b := t.Args[0], t.Args[1]
		isRep := func(x *Term) bool { return x.Op == "app" && (x.Name == "pt" || x.Name == "aff") }
		if !isRep(a) && isRep(b) {
			a, b = b, a
		}
		if isRep(a) && isRep(b) && a.Name == "aff" && b.Name == "pt" {
			a, b = b, a
		}
		if isRep(a) && !occurs(a, b) {
			s.addSubst(a, b)
		}
	}
	// residue equalities  toring(big form) == atom$...  : rewrite the big form to the opaque atom
	if t.Op == "=" && len(t.Args) == 2 && modulusOf(t.Args[0].Sort) != nil && t.Args[1].IsConst() && t.Args[1].Val.Sign() == 0 && t.Args[0].Op == "poly" {
		p := t.Args[0].P
		if len(p.t) == 2 {
			var av, tr *Term
			okShape := true
			for _, e := range p.t {
				if len(e.m.f) != 1 || e.m.f[0].exp.Cmp(big1) != 0 {
					okShape = false
					break
				}
				a := e.m.f[0].atom
				if a.Op == "var" && strings.HasPrefix(a.Name, "atom$") {
					av = a
				} else if a.Op == "app" && a.Name == "toring" {
					tr = a
				}
			}
			if okShape && av != nil && tr != nil {
				m := modulusOf(t.Args[0].Sort)
				ca := p.t[(&Mono{f: []monoFactor{{av, big1}}}).Key()].c
				cb := p.t[(&Mono{f: []monoFactor{{tr, big1}}}).Key()].c
				if new(big.Int).Mod(new(big.Int).Add(ca, cb), m).Sign() == 0 && (ca.Cmp(big1) == 0 || cb.Cmp(big1) == 0) {
					s.addSubst(tr, av)
				}
			}
		}
	}
	// fresh-variable == atom (a byte of a buffer written by a callee equals a byte of a digest / stream):
	// substitute the variable
	if t.Op == "=" && len(t.Args) == 2 && t.Args[0].Sort == SInt && t.Args[1].IsConst() && t.Args[1].Val.Sign() == 0 && t.Args[0].Op == "poly" && len(t.Args[0].P.t) == 2 {
		var fv, other *Term
		var cf, co *big.Int
		okShape := true
		for _, e := range t.Args[0].P.t {
			if len(e.m.f) != 1 || e.m.f[0].exp.Cmp(big1) != 0 || e.c.CmpAbs(big1) != 0 {
				okShape = false
				break
			}
			a := e.m.f[0].atom
			if fv == nil && a.Op == "var" && strings.Contains(a.Name, "!") {
				fv, cf = a, e.c
			} else {
				other, co = a, e.c
			}
		}
		if okShape && fv != nil && other != nil && other.Op == "select" && new(big.Int).Add(cf, co).Sign() == 0 && !occurs(fv, other) {
			s.addSubst(fv, other)
		}
	}
	// x == c for an integer variable x: substitute
	if t.Op == "=" && len(t.Args) == 2 && t.Args[0].Sort == SInt && t.Args[1].IsConst() && t.Args[1].Val.Sign() == 0 {
		p := polyOf(t.Args[0])
		if len(p.t) <= 2 {
			var v *Term
			var coef, c0 *big.Int
			c0 = big0
			okShape := true
			for k, e := range p.t {
				if k == "" {
					c0 = e.c
					continue
				}
				if v == nil && len(e.m.f) == 1 && e.m.f[0].exp.Cmp(big1) == 0 && e.m.f[0].atom.Op == "var" {
					v, coef = e.m.f[0].atom, e.c
				} else {
					okShape = false
				}
			}
			if okShape && v != nil && coef.CmpAbs(big1) == 0 {
				val := new(big.Int).Neg(c0)
				if coef.Sign() < 0 {
					val = c0
				}
				s.addSubst(v, mkInt(val))
			}
		}
	}
	s.hypKeys[k] = true
	s.hyps = append(s.hyps, t)
	// known (small) conditions simplify later terms (ite conditions, guards)
	switch t.Op {
	case "=", "<=", "app", "var":
		if smallCondition(t) {
			s.addSubst(t, tTrue)
		}
	case "not":
		switch t.Args[0].Op {
		case "=", "<=", "app", "var":
			if smallCondition(t.Args[0]) {
				s.addSubst(t.Args[0], tFalse)
			}
		}
		// x != 0 for a residue atom x: exponents of x reduce modulo M-1 from here on (Fermat)
		if eq := t.Args[0]; eq.Op == "=" && modulusOf(eq.Args[0].Sort) != nil && eq.Args[1].IsConst() && eq.Args[1].Val.Sign() == 0 {
			if a := residueAtom(eq.Args[0]); a != nil {
				if s.nonzero == nil {
					s.nonzero = map[string]bool{}
				}
				if !s.nonzero[a.Key()] {
					s.nonzero[a.Key()] = true
					s.subMemo = nil
					s.memoShared = false
				}
			}
		}
	}
}

// assumeCase: assume the condition of an explicit case split; whatever its size it also becomes a rewrite
// rule, so that every ite on it collapses in this case.
func (s *State) assumeCase(c *Term) {
	c = s.sub(c)
	s.assume(c)
	// atom == const: substitute the atom; atom != 0 for a two-valued atom: it is 1
	if eq, neg := c, false; true {
		if eq.Op == "not" {
			eq, neg = eq.Args[0], true
		}
		if eq.Op == "=" && eq.Args[0].Sort == SInt && eq.Args[1].IsConst() && eq.Args[1].Val.Sign() == 0 {
			p := polyOf(eq.Args[0])
			var at *Term
			coef, c0 := big0, big0
			shape := len(p.t) <= 2
			for k, e := range p.t {
				if k == "" {
					c0 = e.c
				} else if at == nil && len(e.m.f) == 1 && e.m.f[0].exp.Cmp(big1) == 0 && e.c.CmpAbs(big1) == 0 {
					at, coef = e.m.f[0].atom, e.c
				} else {
					shape = false
				}
			}
			if shape && at != nil {
				val := new(big.Int).Neg(c0)
				if coef.Sign() < 0 {
					val = c0
				}
				lo, hi := rangeOf(at)
				if !neg {
					s.addSubst(at, mkInt(val))
				} else if lo != nil && hi != nil && lo.Sign() == 0 && hi.Cmp(big1) == 0 && (val.Sign() == 0 || val.Cmp(big1) == 0) {
					s.addSubst(at, mkInt(new(big.Int).Sub(big1, val)))
				}
			}
		}
	}
	switch c.Op {
	case "=", "<=", "app", "var":
		s.addSubst(c, tTrue)
	case "not":
		switch c.Args[0].Op {
		case "=", "<=", "app", "var":
			s.addSubst(c.Args[0], tFalse)
		}
	}
}

// residueAtom: the atom x when t is x (possibly wrapped as the polynomial 1*x), else nil.
func residueAtom(t *Term) *Term {
	if t.Op == "poly" {
		return t.P.IsAtom()
	}
	if isAtomTerm(t) {
		return t
	}
	return nil
}

// smallCondition: a condition over at most three atoms (the kind that occurs as an ite condition).
func smallCondition(t *Term) bool {
	ok := true
	t.walk(func(u *Term) {
		if u.Op == "ite" {
			ok = false
		}
	})
	if !ok {
		return false
	}
	// atoms of the compared polynomials (an atom counts once, whatever is inside it)
	n := 0
	var count func(u *Term)
	count = func(u *Term) {
		switch u.Op {
		case "poly":
			n += len(u.P.Atoms())
		case "const":
		case "=", "<=", "not", "and":
			for _, a := range u.Args {
				count(a)
			}
		default:
			n++
		}
	}
	count(t)
	return n <= 3
}

// sub applies the state's rewrite rules (memoised until the rule set changes).  Rules are resolved
// lazily: the result is rewritten again until it is stable.
func (s *State) sub(t *Term) *Term {
	if len(s.subst) == 0 && len(s.nonzero) == 0 {
		return t
	}
	if s.subMemo == nil {
		s.subMemo = map[string]*Term{}
	}
	r := substituteMemo(t, s.subst, s.subMemo, s.nonzero)
	for i := 0; i < 4 && r != t; i++ {
		t = r
		r = substituteMemo(t, s.subst, s.subMemo, s.nonzero)
	}
	return r
}

// addSubst records the rewrite rule lhs -> rhs.
func (s *State) addSubst(lhs, rhs *Term) {
	rhs = s.sub(rhs)
	if occurs(lhs, rhs) {
		return
	}
	// keep the defining equation as a hypothesis too: earlier hypotheses may mention lhs
	if lhs.Sort != SBool {
		eq := &Term{Op: "=", Sort: SBool, Args: []*Term{lhs, rhs}}
		if lhs.Sort == rhs.Sort && !s.hypKeys[eq.Key()] {
			s.hypKeys[eq.Key()] = true
			s.hyps = append(s.hyps, eq)
		}
	}
	// memoised results stay valid unless the new left-hand side occurred in a term rewritten before
	if _, seen := s.subMemo[lhs.Key()]; seen || s.subMemo == nil {
		s.subMemo = nil
		s.memoShared = false
	} else if s.memoShared {
		// private copy before this state's rule set diverges from its siblings'
		m := make(map[string]*Term, len(s.subMemo))
		for k, v := range s.subMemo {
			m[k] = v
		}
		s.subMemo, s.memoShared = m, false
	}
	s.subst[lhs.Key()] = rhs
}

// infeasible: cheap syntactic check
func (s *State) infeasible() bool {
	for _, h := range s.hyps {
		if h.IsConst() && h.Val.Sign() == 0 {
			return true
		}
	}
	return false
}

type Frame struct {
	fn       *ssa.Function
	vals     map[ssa.Value]Value
	depth    int
	contract *Contract
	loopHdr  map[*ssa.BasicBlock]int // loop header -> ordinal
	topLevel bool
	params   map[string]Value
	old      *State
	ctx      *verifyCtx
}

func (f *Frame) fork() *Frame {
	n := *f
	n.vals = make(map[ssa.Value]Value, len(f.vals))
	for k, v := range f.vals {
		n.vals[k] = v
	}
	return &n
}

type Exit struct {
	kind    string // return panic loopback infeasible
	st      *State
	results []Value
	msg     string
}

type engineError struct{ msg string }

func (e *Engine) fail(format string, args ...interface{}) {
	panic(engineError{fmt.Sprintf(format, args...)})
}

func (e *Engine) freshName(base string) string {
	e.varN++
	return fmt.Sprintf("%s!%d", base, e.varN)
}

func (e *Engine) newRegion(name string, typ types.Type, fresh bool) *Region {
	e.regionN++
	return &Region{id: e.regionN, name: name, typ: typ, fresh: fresh}
}

// ---------------------------------------------------------------------------- memory access

func (e *Engine) zeroValue(t types.Type) Value {
	switch u := underlying(t).(type) {
	case *types.Basic:
		switch {
		case u.Info()&types.IsBoolean != 0:
			return tFalse
		case u.Info()&types.IsInteger != 0:
			return mkInt64(0)
		case u.Info()&types.IsString != 0:
			return &StrVal{known: true, s: ""}
		case u.Kind() == types.UnsafePointer:
			return &PtrVal{null: true, typ: t}
		}
	case *types.Pointer:
		return &PtrVal{null: true, typ: t}
	case *types.Slice:
		return &SliceVal{reg: nil, off: mkInt64(0), length: mkInt64(0), capacity: mkInt64(0), elem: u.Elem()}
	case *types.Interface:
		return &IfaceVal{null: tTrue}
	case *types.Struct:
		a := &AggVal{typ: t}
		for i := 0; i < u.NumFields(); i++ {
			a.elems = append(a.elems, e.zeroValue(u.Field(i).Type()))
		}
		return a
	case *types.Array:
		a := &AggVal{typ: t}
		z := e.zeroValue(u.Elem())
		for i := int64(0); i < u.Len(); i++ {
			a.elems = append(a.elems, z)
		}
		return a
	case *types.Signature:
		return &FuncVal{}
	case *types.Tuple:
		tv := &TupleVal{}
		for i := 0; i < u.Len(); i++ {
			tv.elems = append(tv.elems, e.zeroValue(u.At(i).Type()))
		}
		return tv
	}
	e.fail("zeroValue: unsupported type %s", t)
	return nil
}

// symbolicValue creates a fresh symbolic value of a type (scalars only get variables; pointers need
// explicit handling by the caller).
func (e *Engine) symbolicScalar(name string, t types.Type) *Term {
	if b, ok := underlying(t).(*types.Basic); ok && b.Info()&types.IsBoolean != 0 {
		return mkVar(name, SBool)
	}
	lo, hi := intRange(t)
	if lo == nil {
		e.fail("symbolicScalar: unsupported type %s for %s", t, name)
	}
	return mkIntVarR(name, lo, hi)
}

func (e *Engine) initRegionZero(st *State, r *Region) {
	leafPaths(r.typ, nil, func(path []int, lt types.Type) {
		st.mem.cells[pathKey(r.id, path)] = e.zeroValue(lt)
	})
}

// loadPath reads the value at (region,path) of static type t.
func (e *Engine) poison(r *Region, why string) {
	if e.poisoned == nil {
		e.poisoned = map[int]string{}
	}
	if _, ok := e.poisoned[r.id]; !ok {
		e.poisoned[r.id] = why
	}
}

func (e *Engine) loadPath(st *State, r *Region, path []int, t types.Type) Value {
	if why, bad := e.poisoned[r.id]; bad && !e.concrete {
		e.fail("read of package-level state that is not modelled: %s", why)
	}
	if w, ok := e.windows[r.id]; ok {
		if len(path) == 0 {
			// whole-window load: element by element
			at := underlying(t).(*types.Array)
			a := &AggVal{typ: t}
			for i := int64(0); i < at.Len(); i++ {
				a.elems = append(a.elems, e.loadPath(st, w.parent, extend(w.path, int(w.off+i)), at.Elem()))
			}
			return a
		}
		np := extend(w.path, path[0]+int(w.off))
		return e.loadPath(st, w.parent, append(np, path[1:]...), t)
	}
	switch u := underlying(t).(type) {
	case *types.Struct:
		a := &AggVal{typ: t}
		for i := 0; i < u.NumFields(); i++ {
			a.elems = append(a.elems, e.loadPath(st, r, extend(path, i), u.Field(i).Type()))
		}
		return a
	case *types.Array:
		a := &AggVal{typ: t}
		for i := int64(0); i < u.Len(); i++ {
			a.elems = append(a.elems, e.loadPath(st, r, extend(path, int(i)), u.Elem()))
		}
		return a
	}
	v, ok := st.mem.cells[pathKey(r.id, path)]
	if !ok && r.lazy {
		if r.tblKind != "" {
			if e.tables == nil {
				e.loadTables(e.repoDir)
			}
			if e.tables.err != nil {
				e.fail("generator tables unavailable: %v", e.tables.err)
			}
			if v, ok := e.tableCell(r, path); ok {
				return v
			}
		}
		if isScalarType(t) {
			return e.symbolicScalar(r.name+pathName(r.typ, path), t)
		}
	}
	if !ok && r.name == "rand.Reader" && len(path) == 0 {
		// crypto/rand.Reader: set by the standard library's initialisation, never nil (assumption, listed)
		e.usedIntrinsic("crypto/rand.Reader")
		v = &IfaceVal{null: tFalse, tagT: mkIntVarR("rand.Reader.dyn", nil, nil), obj: "rand.Reader"}
		st.mem.cells[pathKey(r.id, path)] = v
		ok = true
	}
	if !ok {
		e.fail("load from uninitialised cell %s%s (region %s)", r.name, pathName(r.typ, path), r.name)
	}
	if tv, ok := v.(*Term); ok && len(st.subst) > 0 {
		return st.sub(tv)
	}
	if sv, ok := v.(*SliceVal); ok && sv.reg != nil && len(st.subst) > 0 {
		n := *sv
		n.off, n.length, n.capacity = st.sub(sv.off), st.sub(sv.length), st.sub(sv.capacity)
		return &n
	}
	return v
}

func (e *Engine) storePath(st *State, r *Region, path []int, t types.Type, v Value) {
	if r.ronly {
		e.fail("store into read-only region %s", r.name)
	}
	if w, ok := e.windows[r.id]; ok {
		if len(path) == 0 {
			at := underlying(t).(*types.Array)
			a := v.(*AggVal)
			for i := int64(0); i < at.Len(); i++ {
				e.storePath(st, w.parent, extend(w.path, int(w.off+i)), at.Elem(), a.elems[i])
			}
			return
		}
		np := extend(w.path, path[0]+int(w.off))
		e.storePath(st, w.parent, append(np, path[1:]...), t, v)
		return
	}
	switch u := underlying(t).(type) {
	case *types.Struct:
		a, ok := v.(*AggVal)
		if !ok {
			e.fail("storePath: expected aggregate for %s", t)
		}
		for i := 0; i < u.NumFields(); i++ {
			e.storePath(st, r, extend(path, i), u.Field(i).Type(), a.elems[i])
		}
		return
	case *types.Array:
		a, ok := v.(*AggVal)
		if !ok {
			e.fail("storePath: expected aggregate for %s", t)
		}
		for i := int64(0); i < u.Len(); i++ {
			e.storePath(st, r, extend(path, int(i)), u.Elem(), a.elems[i])
		}
		return
	}
	st.mem.cells[pathKey(r.id, path)] = v
	st.markWritten(pathKey(r.id, path))
}

func (e *Engine) dynArr(st *State, r *Region) *Term {
	v, ok := st.mem.cells[pathKey(r.id, nil)]
	if !ok {
		e.fail("dynamic region %s has no contents", r.name)
	}
	return v.(*Term)
}

// familyElem returns the object that element idx of a slice-of-pointers parameter points to.
func (e *Engine) familyElem(st *State, r *Region, idx *Term) *PtrVal {
	if e.familyRegs == nil {
		e.familyRegs = map[string]*Region{}
	}
	idx = st.sub(idx)
	key := fmt.Sprintf("%d:%s", r.id, idx.Key())
	fr, ok := e.familyRegs[key]
	if !ok {
		name := fmt.Sprintf("%s[%s]", r.name, trunc(idx.Key(), 40))
		fr = e.newRegion(name, r.family, false)
		fr.lazy = true
		fr.familyOf = r
		e.familyRegs[key] = fr
	}
	p := &PtrVal{reg: fr, typ: types.NewPointer(r.family)}
	for _, inv := range e.invariantsOfValue(st, p, p.typ, fr.name) {
		st.assume(inv.t)
	}
	return p
}

// load through a pointer
func (e *Engine) load(st *State, p *PtrVal, fr *Frame) Value {
	if p.null {
		e.fail("load through nil pointer")
	}
	if p.reg.family != nil {
		if p.reg.aliasPtr != nil {
			c := st.sub(mkEq(p.sym, p.reg.aliasIdx))
			if knownTrue(st, c) {
				return p.reg.aliasPtr
			}
			if !knownFalse(st, c) {
				return &forkLoad{cond: c, a: p.reg.aliasPtr, b: e.familyElem(st, p.reg, p.sym)}
			}
		}
		return e.familyElem(st, p.reg, p.sym)
	}
	if p.reg.dyn {
		if p.sym == nil {
			e.fail("pointer into dynamic region without index")
		}
		return mkSelect(e.dynArr(st, p.reg), p.sym)
	}
	t := subType(p.reg.typ, p.path)
	if p.sym != nil {
		arr := underlying(t).(*types.Array)
		if !isScalarType(arr.Elem()) {
			e.fail("symbolic index into array of non-scalars")
		}
		n := arr.Len()
		var res *Term
		for i := n - 1; i >= 0; i-- {
			c := e.loadPath(st, p.reg, extend(p.path, int(i)), arr.Elem()).(*Term)
			if res == nil {
				res = c
			} else {
				res = mkIte(mkEq(p.sym, mkInt64(i)), c, res)
			}
		}
		return res
	}
	return e.loadPath(st, p.reg, p.path, t)
}

func (e *Engine) store(st *State, p *PtrVal, v Value) {
	if p.null {
		e.fail("store through nil pointer")
	}
	if p.reg.dyn {
		arr := e.dynArr(st, p.reg)
		st.mem.cells[pathKey(p.reg.id, nil)] = mkStore(arr, p.sym, v.(*Term))
		st.markWritten(pathKey(p.reg.id, nil))
		return
	}
	t := subType(p.reg.typ, p.path)
	if p.sym != nil {
		arr := underlying(t).(*types.Array)
		for i := int64(0); i < arr.Len(); i++ {
			old := e.loadPath(st, p.reg, extend(p.path, int(i)), arr.Elem()).(*Term)
			e.storePath(st, p.reg, extend(p.path, int(i)), arr.Elem(), mkIte(mkEq(p.sym, mkInt64(i)), v.(*Term), old))
		}
		return
	}
	e.storePath(st, p.reg, p.path, t, v)
}

// sliceElemLoad reads element k (Term index relative to slice start).
func (e *Engine) sliceElem(st *State, s *SliceVal, k *Term) *Term {
	idx := mkAdd(s.off, k)
	if s.reg.dyn {
		return mkSelect(e.dynArr(st, s.reg), idx)
	}
	if idx.IsConst() {
		return e.loadPath(st, s.reg, extend(s.path, int(idx.Val.Int64())), s.elem).(*Term)
	}
	p := &PtrVal{reg: s.reg, path: s.path, sym: idx}
	return e.load(st, p, nil).(*Term)
}

func (e *Engine) sliceElemStore(st *State, s *SliceVal, k *Term, v *Term) {
	idx := mkAdd(s.off, k)
	if s.reg.dyn {
		st.mem.cells[pathKey(s.reg.id, nil)] = mkStore(e.dynArr(st, s.reg), idx, v)
		st.markWritten(pathKey(s.reg.id, nil))
		return
	}
	if idx.IsConst() {
		e.storePath(st, s.reg, extend(s.path, int(idx.Val.Int64())), s.elem, v)
		return
	}
	e.store(st, &PtrVal{reg: s.reg, path: s.path, sym: idx}, v)
}

// ---------------------------------------------------------------------------- obligations

// strengthenPtGoal replaces, in positive positions of a goal, an equality between abstract points by
// the (sufficient) equality of the coefficients of every base point.
func strengthenPtGoal(t *Term, pos bool) *Term {
	switch t.Op {
	case "not":
		return mkNot(strengthenPtGoal(t.Args[0], !pos))
	case "and":
		args := make([]*Term, len(t.Args))
		for i, a := range t.Args {
			args[i] = strengthenPtGoal(a, pos)
		}
		return mkAnd(args...)
	case "=":
		if pos && len(t.Args) == 2 && t.Args[0].Sort == SPt && t.Args[0].Op != "ite" && t.Args[1].Op != "ite" && sameAtoms(linOf(t.Args[0]), linOf(t.Args[1])) {
			d := linOf(t.Args[0]).Add(linOf(t.Args[1]).Scale(mkRingConst(SFn, big.NewInt(-1))))
			var cs []*Term
			for _, e := range d.sorted() {
				cs = append(cs, strengthenPtGoal(mkEq(e.coef, mkRingConst(SFn, big0)), true))
			}
			return mkAnd(cs...)
		}
		if pos && len(t.Args) == 2 && modulusOf(t.Args[0].Sort) != nil {
			if g := integerSufficient(t); g != nil {
				return g
			}
		}
	}
	return t
}

func sameAtoms(a, b *Lin) bool {
	if len(a.t) != len(b.t) {
		return false
	}
	for k := range a.t {
		if _, ok := b.t[k]; !ok {
			return false
		}
	}
	return true
}

// integerSufficient: a residue equation  sum c_i * toring(x_i) + c0 == 0  (all x_i integer terms) follows
// from the corresponding equation over the integers, with coefficients above M/2 read as negative.
func integerSufficient(t *Term) *Term {
	if !(t.Args[1].IsConst() && t.Args[1].Val.Sign() == 0) || t.Args[0].Op != "poly" {
		return nil
	}
	p := t.Args[0].P
	m := modulusOf(p.sort)
	half := new(big.Int).Rsh(m, 1)
	if len(p.t) < 3 {
		return nil
	}
	sum := mkInt64(0)
	lifted, ntoring := 0, 0
	for _, e := range p.t {
		if len(e.m.f) == 1 && e.m.f[0].atom.Op == "app" && e.m.f[0].atom.Name == "toring" {
			ntoring++
		}
	}
	if ntoring < 2 {
		lifted = 1 // no lifting unless the equation is mostly over integer-valued atoms
	}
	for _, e := range p.t {
		c := new(big.Int).Set(e.c)
		if c.Cmp(half) > 0 {
			c.Sub(c, m)
		}
		if len(e.m.f) == 0 {
			sum = mkAdd(sum, mkInt(c))
			continue
		}
		if len(e.m.f) != 1 || e.m.f[0].exp.Cmp(big1) != 0 {
			return nil
		}
		a := e.m.f[0].atom
		if a.Op != "app" || a.Name != "toring" {
			// one other residue atom A among integer-valued ones (a scalar against its window decomposition):
			// toring(lift(A)) = A, so its canonical representative may stand for it
			if isAtomTerm(a) && modulusOf(a.Sort) != nil && lifted == 0 {
				lifted++
				sum = mkAdd(sum, mkScale(mkLift(a), c))
				continue
			}
			return nil
		}
		sum = mkAdd(sum, mkScale(a.Args[0], c))
	}
	return mkEq(recombineDivMod(sum), mkInt64(0))
}

// recombineDivMod:  k*c*(x div k) + c*(x mod k)  is  c*x  (x an integer term, k a positive constant).  The window
// decompositions of scalar bytes (b>>4, b&15) recombine syntactically instead of through the solver.
func recombineDivMod(t *Term) *Term {
	if t.Op != "poly" {
		return t
	}
	p := t.P
	type ent struct {
		key string
		c   *big.Int
	}
	divs := map[string]ent{} // key(x)+"/"+k -> coefficient of (x div k)
	mods := map[string]ent{}
	args := map[string]*Term{}
	for k, e := range p.t {
		if len(e.m.f) != 1 || e.m.f[0].exp.Cmp(big1) != 0 {
			continue
		}
		a := e.m.f[0].atom
		if (a.Op == "div" || a.Op == "mod") && a.Val != nil {
			id := a.Args[0].Key() + "/" + a.Val.String()
			args[id] = a
			if a.Op == "div" {
				divs[id] = ent{k, e.c}
			} else {
				mods[id] = ent{k, e.c}
			}
		}
	}
	res := p
	changed := false
	for id, d := range divs {
		m, ok := mods[id]
		if !ok {
			continue
		}
		k := args[id].Val
		if new(big.Int).Mul(m.c, k).Cmp(d.c) != 0 {
			continue
		}
		// remove both terms, add c*x
		np := newPoly(p.sort)
		for kk, e := range res.t {
			if kk != d.key && kk != m.key {
				np.t[kk] = e
			}
		}
		res = np.Add(polyOf(args[id].Args[0]).Scale(m.c))
		changed = true
	}
	if !changed {
		return t
	}
	return fromPoly(res)
}

func (e *Engine) addObligation(st *State, fr *Frame, kind, label string, goal *Term, text string) {
	goal = st.sub(goal)
	var alt *Term
	if kind == "cut" || kind == "assert" {
		goal = strengthenPtGoal(goal, true) // these are assumed afterwards in the strengthened form
	} else if sg := strengthenPtGoal(goal, true); sg.Key() != goal.Key() {
		alt = sg // sufficient condition, tried first; the original goal remains the obligation
	}
	if goal.Op == "and" && len(goal.Args) > 1 && (kind == "assert" || kind == "cut" || kind == "ensures" || kind == "proves") && !e.concrete {
		// one obligation per conjunct (smaller queries, sharper reports)
		for i, g := range goal.Args {
			e.addObligation(st, fr, kind, fmt.Sprintf("%s.%d", label, i), g, text)
		}
		return
	}
	if e.concrete {
		if goal.IsConst() && goal.Val.Sign() == 0 {
			e.fail("ground evaluation violates %s:%s (%s)", kind, label, text)
		}
		return
	}
	name := fmt.Sprintf("%s#%s", e.curFunc, kind)
	if label != "" {
		name += ":" + label
	}
	if e.variant != "" {
		name += "/" + e.variant
	}
	e.oblNames[name]++
	if n := e.oblNames[name]; n > 1 {
		name = fmt.Sprintf("%s/path=%d", name, n)
	}
	o := &Obligation{Name: name, Kind: kind, Func: e.curFunc, Props: e.curProps, Goal: goal, Alt: alt, Text: text, Variant: e.variant}
	if fr != nil && fr.contract != nil {
		o.NIA = fr.contract.NIA
		o.Timeout = fr.contract.Timeout
	}
	// cheap discharge
	if goal.IsConst() && goal.Val.Sign() != 0 {
		o.Result = &SolveResult{Status: "unsat", Solver: "syntactic", Backend: "syntactic"}
	} else if st.hypKeys[goal.Key()] {
		o.Result = &SolveResult{Status: "unsat", Solver: "syntactic", Backend: "syntactic"}
	} else if goal.Op == "and" {
		all := true
		for _, g := range goal.Args {
			if !st.hypKeys[g.Key()] {
				all = false
				break
			}
		}
		if all {
			o.Result = &SolveResult{Status: "unsat", Solver: "syntactic", Backend: "syntactic"}
		}
	}
	if o.Result == nil && fr != nil && fr.contract != nil && fr.contract.Options["field"] && goal.Op == "=" && len(goal.Args) == 2 && modulusOf(goal.Args[0].Sort) != nil {
		// rational identities over Z/M: clear denominators, reduce by square relations, expand definitions
		if e.fieldProve(st, goal) {
			o.Result = &SolveResult{Status: "unsat", Solver: "field-nf", Backend: "field-nf"}
		}
	}
	if o.Result == nil {
		o.Hyps = append([]*Term{}, st.hyps...)
		if len(e.curFrom) > 0 {
			o.From = []*Term{}
			for _, l := range e.curFrom {
				if l == "entry" {
					o.From = append(o.From, st.hyps[:st.entryH]...)
					continue
				}
				if r, ok := st.labelHyps[l]; ok && r[1] <= len(st.hyps) {
					o.From = append(o.From, st.hyps[r[0]:r[1]]...)
				}
			}
		}
	}
	if dbg := os.Getenv("VCGO_DEBUG_OBL"); dbg != "" && strings.Contains(name, dbg) {
		fmt.Fprintf(os.Stderr, "[obl] %s\n   goal: %s\n", name, trunc(pretty(goal, 9), 6000))
		if os.Getenv("VCGO_DEBUG_HYPS") != "" {
			for i, h := range st.hyps {
				fmt.Fprintf(os.Stderr, "   hyp %d: %s\n", i, trunc(h.Key(), 300))
			}
			fmt.Fprintf(os.Stderr, "   trace: %v\n", st.trace)
			if os.Getenv("VCGO_DEBUG_DIFF") == "sides" && goal.Op == "=" && len(goal.Args) == 2 {
				if a, b := firstDiff(goal.Args[0], goal.Args[1], 0); a != nil {
					fmt.Fprintf(os.Stderr, "   first difference between the two sides:\n     lhs: %s\n     rhs: %s\n", trunc(pretty(a, 5), 1500), trunc(pretty(b, 5), 1500))
				}
			} else if d := os.Getenv("VCGO_DEBUG_DIFF"); d != "" {
				if k, err := strconv.Atoi(d); err == nil && k < len(st.hyps) {
					a, b := firstDiff(goal, st.hyps[k], 0)
					if a != nil {
						fmt.Fprintf(os.Stderr, "   first difference (goal vs hyp %d):\n     goal: %s\n     hyp : %s\n", k, trunc(pretty(a, 5), 1500), trunc(pretty(b, 5), 1500))
					}
				}
			}
		}
	}
	e.obls = append(e.obls, o)
}

// ---------------------------------------------------------------------------- integer ops

func wrapToType(t *Term, typ types.Type) *Term {
	w := bitWidth(typ)
	if w == 0 || t.Sort != SInt {
		return t
	}
	lo, hi := intRange(typ)
	if lo == nil {
		return t
	}
	return lift1(t, func(t *Term) *Term {
		tl, th := rangeOf(t)
		if tl != nil && th != nil && tl.Cmp(lo) >= 0 && th.Cmp(hi) <= 0 {
			return t
		}
		m := new(big.Int).Lsh(big1, uint(w))
		if !isSigned(typ) {
			return expand01(mkModC(t, m))
		}
		half := new(big.Int).Lsh(big1, uint(w-1))
		return mkSub(mkModC(mkAdd(t, mkInt(half)), m), mkInt(half))
	})
}

// expand01: a mod/div term over a polynomial with a single {0,1}-ranged atom becomes an ite.
func expand01(t *Term) *Term {
	if t.Op != "mod" && t.Op != "div" {
		return t
	}
	inner := t.Args[0]
	p := polyOf(inner)
	ats := p.Atoms()
	if len(ats) != 1 {
		return t
	}
	a := ats[0]
	lo, hi := rangeOf(a)
	if lo == nil || hi == nil || lo.Sign() != 0 || hi.Cmp(big1) != 0 {
		return t
	}
	ev := func(v int64) *Term {
		r := substitute(t, map[string]*Term{a.Key(): mkInt64(v)})
		return r
	}
	return mkIte(mkEq(a, mkInt64(0)), ev(0), ev(1))
}

func is01(t *Term) bool {
	lo, hi := rangeOf(t)
	return lo != nil && hi != nil && lo.Sign() >= 0 && hi.Cmp(big1) <= 0
}

func isPow2(v *big.Int) (int, bool) {
	if v.Sign() <= 0 {
		return 0, false
	}
	n := v.BitLen() - 1
	if new(big.Int).Lsh(big1, uint(n)).Cmp(v) == 0 {
		return n, true
	}
	return 0, false
}

// expand01poly: a polynomial over a single {0,1}-ranged atom becomes an ite of two constants.
func expand01poly(t *Term) *Term {
	if t.Op != "poly" || t.Sort != SInt {
		return t
	}
	ats := t.P.Atoms()
	if len(ats) != 1 || !is01(ats[0]) {
		return t
	}
	a := ats[0]
	if a.Op == "ite" {
		return t
	}
	return mkIte(mkEq(a, mkInt64(0)), substitute(t, map[string]*Term{a.Key(): mkInt64(0)}), substitute(t, map[string]*Term{a.Key(): mkInt64(1)}))
}

// forceLift: a polynomial over a single ite atom becomes an ite of polynomials (needed where the
// consumer wants constants, e.g. masks and shift amounts).
func forceLift(t *Term) *Term {
	if t.Sort != SInt || t.IsConst() || t.Op == "ite" || t.Op == "var" {
		return t
	}
	// find the ite atoms occurring (through polynomials, div, mod) in t
	var ites []*Term
	seen := map[string]bool{}
	var find func(x *Term)
	find = func(x *Term) {
		switch x.Op {
		case "ite":
			if !seen[x.Key()] {
				seen[x.Key()] = true
				ites = append(ites, x)
			}
		case "poly":
			for _, a := range x.P.Atoms() {
				find(a)
			}
		case "div", "mod":
			find(x.Args[0])
		}
	}
	find(t)
	if len(ites) != 1 || countLeaves(ites[0]) > 64 {
		return t
	}
	a := ites[0]
	var rec func(x *Term) *Term
	rec = func(x *Term) *Term {
		if x.Op == "ite" {
			return mkIte(x.Args[0], rec(x.Args[1]), rec(x.Args[2]))
		}
		return substitute(t, map[string]*Term{a.Key(): x})
	}
	return rec(a)
}

func (e *Engine) bitOp(op token.Token, a, b *Term, typ types.Type) *Term {
	a, b = forceLift(expand01poly(a)), forceLift(expand01poly(b))
	// signed operands that may be negative: the simplifications and the axioms of the uninterpreted bit functions
	// below are facts about non-negative integers.  Work on the two's-complement representatives instead
	// (a mod 2^w), and map the result back to the signed range.
	if tlo, _ := intRange(typ); tlo != nil && tlo.Sign() < 0 {
		nonneg := func(t *Term) bool {
			if t.IsConst() {
				return t.Val.Sign() >= 0
			}
			lo, _ := rangeOf(t)
			return lo != nil && lo.Sign() >= 0
		}
		if !nonneg(a) || !nonneg(b) {
			w := bitWidth(typ)
			W := new(big.Int).Lsh(big1, uint(w))
			var ut types.Type = types.Typ[types.Uint64]
			switch w {
			case 8:
				ut = types.Typ[types.Uint8]
			case 16:
				ut = types.Typ[types.Uint16]
			case 32:
				ut = types.Typ[types.Uint32]
			}
			r := e.bitOp(op, mkModC(a, W), mkModC(b, W), ut)
			return lift1(r, func(r *Term) *Term {
				return mkIte(mkLt(r, mkInt(new(big.Int).Rsh(W, 1))), r, mkSub(r, mkInt(W)))
			})
		}
	}
	if a.Op == "ite" && countLeaves(a)*countLeaves(b) <= 64 {
		return mkIte(a.Args[0], e.bitOp(op, a.Args[1], restrict(b, a.Args[0], true), typ), e.bitOp(op, a.Args[2], restrict(b, a.Args[0], false), typ))
	}
	if b.Op == "ite" && countLeaves(a)*countLeaves(b) <= 64 {
		return mkIte(b.Args[0], e.bitOp(op, restrict(a, b.Args[0], true), b.Args[1], typ), e.bitOp(op, restrict(a, b.Args[0], false), b.Args[2], typ))
	}
	w := bitWidth(typ)
	all := new(big.Int).Sub(new(big.Int).Lsh(big1, uint(w)), big1)
	return lift2(a, b, func(a, b *Term) *Term {
		if a.IsConst() && b.IsConst() && a.Val.Sign() >= 0 && b.Val.Sign() >= 0 {
			r := new(big.Int)
			switch op {
			case token.AND:
				r.And(a.Val, b.Val)
			case token.OR:
				r.Or(a.Val, b.Val)
			case token.XOR:
				r.Xor(a.Val, b.Val)
			case token.AND_NOT:
				r.AndNot(a.Val, b.Val)
			}
			return mkInt(r)
		}
		if a.IsConst() && !b.IsConst() && op != token.AND_NOT {
			a, b = b, a
		}
		switch op {
		case token.AND:
			if b.IsConst() {
				c := b.Val
				if c.Sign() == 0 {
					return mkInt64(0)
				}
				if c.Cmp(all) == 0 {
					return a
				}
				if n, ok := isPow2(new(big.Int).Add(c, big1)); ok { // low mask
					return mkModC(a, new(big.Int).Lsh(big1, uint(n)))
				}
				if n, ok := isPow2(c); ok { // single bit
					p := new(big.Int).Lsh(big1, uint(n))
					return mkScale(mkModC(mkDivC(a, p), big2), p)
				}
				// contiguous mask 2^hi - 2^lo
				lowz := 0
				for c.Bit(lowz) == 0 {
					lowz++
				}
				sh := new(big.Int).Rsh(c, uint(lowz))
				if n, ok := isPow2(new(big.Int).Add(sh, big1)); ok {
					p := new(big.Int).Lsh(big1, uint(lowz))
					return mkScale(mkModC(mkDivC(a, p), new(big.Int).Lsh(big1, uint(n))), p)
				}
			}
			if is01(a) && is01(b) {
				return mkIte(mkAnd(mkEq(a, mkInt64(1)), mkEq(b, mkInt64(1))), mkInt64(1), mkInt64(0))
			}
			if is01(b) { // x & bit = (x mod 2) & bit
				return mkIte(mkEq(b, mkInt64(0)), mkInt64(0), mkModC(a, big2))
			}
			if is01(a) {
				return mkIte(mkEq(a, mkInt64(0)), mkInt64(0), mkModC(b, big2))
			}
			return e.bitUF("band", a, b, typ)
		case token.OR:
			if b.IsConst() && b.Val.Sign() == 0 {
				return a
			}
			if is01(a) && is01(b) {
				return mkIte(mkAnd(mkEq(a, mkInt64(0)), mkEq(b, mkInt64(0))), mkInt64(0), mkInt64(1))
			}
			// disjoint bit ranges: a multiple of 2^k, b < 2^k
			if r, ok := disjointOr(a, b); ok {
				return r
			}
			if r, ok := disjointOr(b, a); ok {
				return r
			}
			return e.bitUF("bor", a, b, typ)
		case token.XOR:
			if b.IsConst() && b.Val.Sign() == 0 {
				return a
			}
			if a.Key() == b.Key() {
				return mkInt64(0)
			}
			if is01(a) && is01(b) {
				return mkIte(mkEq(a, b), mkInt64(0), mkInt64(1))
			}
			if is01(b) {
				return mkIte(mkEq(b, mkInt64(0)), a, mkSub(mkAdd(a, mkInt64(1)), mkScale(mkModC(a, big2), big2)))
			}
			if is01(a) {
				return mkIte(mkEq(a, mkInt64(0)), b, mkSub(mkAdd(b, mkInt64(1)), mkScale(mkModC(b, big2), big2)))
			}
			if b.IsConst() && b.Val.Cmp(all) == 0 {
				return mkSub(mkInt(all), a)
			}
			return e.bitUF("bxor", a, b, typ)
		case token.AND_NOT:
			if b.IsConst() {
				return e.bitOp(token.AND, a, mkInt(new(big.Int).AndNot(all, b.Val)), typ)
			}
		}
		e.fail("unsupported bit operation %s on %s, %s", op, a.Key(), b.Key())
		return nil
	})
}

// multipleOf: t is provably a multiple of p (p a power of two).
func multipleOf(t *Term, p *big.Int) bool {
	switch t.Op {
	case "const":
		return new(big.Int).Mod(t.Val, p).Sign() == 0
	case "poly":
		for _, e := range t.P.t {
			if new(big.Int).Mod(e.c, p).Sign() != 0 {
				return false
			}
		}
		return true
	case "mod":
		return new(big.Int).Mod(t.Val, p).Sign() == 0 && multipleOf(t.Args[0], p)
	case "ite":
		return multipleOf(t.Args[1], p) && multipleOf(t.Args[2], p)
	}
	return false
}

func disjointOr(a, b *Term) (*Term, bool) {
	_, bh := rangeOf(b)
	bl, _ := rangeOf(b)
	if bh == nil || bl == nil || bl.Sign() < 0 {
		return nil, false
	}
	k := bh.BitLen()
	p := new(big.Int).Lsh(big1, uint(k))
	al, _ := rangeOf(a)
	if al == nil || al.Sign() < 0 {
		return nil, false
	}
	if multipleOf(a, p) {
		return mkAdd(a, b), true
	}
	return nil, false
}

// bitUF: uninterpreted bit operation with sound facts attached as range + defining properties.
func (e *Engine) bitUF(name string, a, b *Term, typ types.Type) *Term {
	if a.Key() > b.Key() {
		a, b = b, a
	}
	_, hi := intRange(typ)
	t := &Term{Op: "app", Sort: SInt, Name: name, Args: []*Term{a, b}, Lo: big0, Hi: hi}
	return t
}

// bitUFFacts returns the axiom instances for every bit-UF application occurring in the terms.
func bitUFFacts(ts []*Term) []*Term {
	var out []*Term
	seen := map[string]bool{}
	for _, t := range ts {
		t.walk(func(u *Term) {
			if u.Op == "app" && u.Name == "be" && len(u.Args) == 1 && !seen[u.Key()] {
				// be(n, x): the n-byte big-endian representation of x (0 <= x < 256^n): its value is x
				seen[u.Key()] = true
				n := u.Val.Int64()
				bs := make([]*Term, n)
				for i := int64(0); i < n; i++ {
					bs[i] = mkSelect(u, mkInt64(i))
				}
				x := u.Args[0]
				inRange := mkAnd(mkLe(mkInt64(0), x), mkLt(x, mkInt(new(big.Int).Lsh(big1, uint(8*n)))))
				out = append(out, mkImplies(inRange, &Term{Op: "=", Sort: SBool, Args: []*Term{os2ipRaw(bs), x}}))
				return
			}
			if u.Op != "app" || len(u.Args) != 2 {
				return
			}
			if seen[u.Key()] {
				return
			}
			a, b := u.Args[0], u.Args[1]
			switch u.Name {
			case "bor":
				seen[u.Key()] = true
				out = append(out, mkLe(a, u), mkLe(b, u), mkLe(u, mkAdd(a, b)),
					mkIff(mkEq(u, mkInt64(0)), mkAnd(mkEq(a, mkInt64(0)), mkEq(b, mkInt64(0)))))
			case "bxor":
				seen[u.Key()] = true
				out = append(out, mkIff(mkEq(u, mkInt64(0)), mkEq(a, b)), mkLe(u, mkAdd(a, b)))
			case "band":
				seen[u.Key()] = true
				out = append(out, mkLe(u, a), mkLe(u, b))
			}
		})
	}
	return out
}

func (e *Engine) shiftOp(op token.Token, a, b *Term, typ types.Type) *Term {
	if !b.IsConst() {
		// symbolic shift amount: exact case analysis over 0..width-1; larger amounts give 0
		w := bitWidth(typ)
		if op == token.SHR && isSigned(typ) {
			e.fail("arithmetic shift by a symbolic amount")
		}
		res := mkInt64(0)
		lo, hi := rangeOf(b)
		for k := int64(w - 1); k >= 0; k-- {
			if lo != nil && hi != nil && (big.NewInt(k).Cmp(lo) < 0 || big.NewInt(k).Cmp(hi) > 0) {
				continue
			}
			v := e.shiftOp(op, a, mkInt64(k), typ)
			res = mkIte(mkEq(b, mkInt64(k)), v, res)
		}
		return res
	}
	k := uint(b.Val.Uint64())
	w := bitWidth(typ)
	if int(k) >= w {
		if op == token.SHR && isSigned(typ) {
			e.fail("arithmetic shift by >= width")
		}
		return mkInt64(0)
	}
	p := new(big.Int).Lsh(big1, k)
	if op == token.SHL {
		return wrapToType(mkScale(a, p), typ)
	}
	if isSigned(typ) {
		al, _ := rangeOf(a)
		if al == nil || al.Sign() < 0 {
			// floor division matches arithmetic shift
			return mkDivC(a, p)
		}
	}
	return mkDivC(a, p)
}

func (e *Engine) binop(st *State, fr *Frame, op token.Token, x, y Value, xt types.Type, rt types.Type) Value {
	switch op {
	case token.EQL, token.NEQ:
		r := e.valuesEqual(st, x, y)
		if op == token.NEQ {
			r = mkNot(r)
		}
		return r
	}
	if sx, ok := x.(*StrVal); ok {
		sy := y.(*StrVal)
		if op == token.ADD && sx.known && sy.known {
			return &StrVal{known: true, s: sx.s + sy.s}
		}
		if op == token.ADD {
			// contents not tracked byte by byte: the abstract value is the concatenation
			if a, b := strAbs(sx), strAbs(sy); a != nil && b != nil {
				return &StrVal{abs: mkBcat(a, b)}
			}
			return &StrVal{}
		}
		e.fail("unsupported string operation %s", op)
	}
	a, ok1 := x.(*Term)
	b, ok2 := y.(*Term)
	if !ok1 || !ok2 {
		e.fail("binop %s on non-scalar values", op)
	}
	if a.Sort == SBool {
		switch op {
		case token.LAND, token.AND:
			return mkAnd(a, b)
		case token.LOR, token.OR:
			return mkOr(a, b)
		}
		e.fail("unsupported boolean binop %s", op)
	}
	switch op {
	case token.ADD:
		return wrapToType(mkAdd(a, b), rt)
	case token.SUB:
		return wrapToType(mkSub(a, b), rt)
	case token.MUL:
		return wrapToType(mkMul(a, b), rt)
	case token.QUO:
		if !b.IsConst() || b.Val.Sign() <= 0 {
			e.fail("division by non-constant")
		}
		if al, _ := rangeOf(a); al == nil || al.Sign() < 0 {
			// truncated division for negatives; model with ite
			return mkIte(mkLe(mkInt64(0), a), mkDivC(a, b.Val), mkNeg(mkDivC(mkNeg(a), b.Val)))
		}
		return mkDivC(a, b.Val)
	case token.REM:
		if !b.IsConst() || b.Val.Sign() <= 0 {
			e.fail("remainder by non-constant")
		}
		if al, _ := rangeOf(a); al == nil || al.Sign() < 0 {
			return mkIte(mkLe(mkInt64(0), a), mkModC(a, b.Val), mkNeg(mkModC(mkNeg(a), b.Val)))
		}
		return mkModC(a, b.Val)
	case token.AND, token.OR, token.XOR, token.AND_NOT:
		return e.bitOp(op, a, b, xt)
	case token.SHL, token.SHR:
		return e.shiftOp(op, a, b, xt)
	case token.LSS:
		return mkLt(a, b)
	case token.LEQ:
		return mkLe(a, b)
	case token.GTR:
		return mkGt(a, b)
	case token.GEQ:
		return mkGe(a, b)
	}
	e.fail("unsupported binop %s", op)
	return nil
}

func (e *Engine) valuesEqual(st *State, x, y Value) *Term {
	switch a := x.(type) {
	case *Term:
		b, ok := y.(*Term)
		if !ok {
			e.fail("equality between scalar and non-scalar")
		}
		return mkEq(a, b)
	case *PtrVal:
		b := y.(*PtrVal)
		if a.null || b.null {
			return mkBool(a.null && b.null)
		}
		if a.reg != b.reg || len(a.path) != len(b.path) {
			return tFalse
		}
		for i := range a.path {
			if a.path[i] != b.path[i] {
				return tFalse
			}
		}
		return tTrue
	case *IfaceVal:
		b := y.(*IfaceVal)
		if a.null.IsConst() && a.null.Val.Sign() != 0 {
			return b.null
		}
		if b.null.IsConst() && b.null.Val.Sign() != 0 {
			return a.null
		}
		// both possibly non-nil
		if (a.dyn != nil && excludedDyn(b, a.dyn)) || (b.dyn != nil && excludedDyn(a, b.dyn)) {
			return tFalse
		}
		if a.tag != "" && b.tag != "" {
			return mkAnd(mkNot(a.null), mkNot(b.null), mkBool(a.tag == b.tag))
		}
		if a.dyn != nil && b.dyn != nil {
			if !types.Identical(a.dyn, b.dyn) {
				return tFalse
			}
			return e.valuesEqual(st, a.val, b.val)
		}
		if a.tagT != nil && b.tagT != nil {
			return mkOr(mkAnd(a.null, b.null), mkAnd(mkNot(a.null), mkNot(b.null), mkEq(a.tagT, b.tagT)))
		}
		ta, tb := ifaceTagTerm(a), ifaceTagTerm(b)
		if ta != nil && tb != nil {
			return mkOr(mkAnd(a.null, b.null), mkAnd(mkNot(a.null), mkNot(b.null), mkEq(ta, tb)))
		}
		e.fail("unsupported interface comparison")
	case *StrVal:
		b := y.(*StrVal)
		if a.known && b.known {
			return mkBool(a.s == b.s)
		}
		if x, y := strAbs(a), strAbs(b); x != nil && y != nil {
			return mkEq(x, y) // equality of the abstract values (the abstraction is a function of the contents)
		}
		e.fail("comparison of symbolic strings")
	case *SliceVal:
		b := y.(*SliceVal)
		if b.reg == nil {
			return mkBool(a.reg == nil)
		}
		if a.reg == nil {
			return mkBool(b.reg == nil)
		}
		e.fail("slice comparison to non-nil")
	case *AggVal:
		b := y.(*AggVal)
		var cs []*Term
		for i := range a.elems {
			cs = append(cs, e.valuesEqual(st, a.elems[i], b.elems[i]))
		}
		return mkAnd(cs...)
	}
	e.fail("unsupported equality on %T", x)
	return nil
}

func ifaceTagTerm(a *IfaceVal) *Term {
	if a.tagT != nil {
		return a.tagT
	}
	if a.tag != "" {
		return mkApp("errtag$"+a.tag, SInt)
	}
	if a.dyn != nil {
		// a value of a zero-size struct type is identified by its dynamic type alone
		if s, ok := underlying(a.dyn).(*types.Struct); ok && s.NumFields() == 0 {
			return dynTypeTerm(a.dyn)
		}
	}
	return nil
}

// dynTypeTerm: the identity of a dynamic type, as compared with the tag of a symbolic interface value.
func dynTypeTerm(t types.Type) *Term { return mkApp("dyntype$"+t.String(), SInt) }

func constValue(e *Engine, c *ssa.Const) Value {
	t := c.Type()
	if c.Value == nil {
		return e.zeroValue(t)
	}
	switch c.Value.Kind() {
	case constant.Bool:
		return mkBool(constant.BoolVal(c.Value))
	case constant.Int:
		v, _ := new(big.Int).SetString(c.Value.ExactString(), 10)
		// normalise into the type's range (e.g. uint64(-1))
		if lo, hi := intRange(t); lo != nil && (v.Cmp(lo) < 0 || v.Cmp(hi) > 0) {
			w := bitWidth(t)
			m := new(big.Int).Lsh(big1, uint(w))
			v.Mod(v, m)
			if isSigned(t) && v.Cmp(hi) > 0 {
				v.Sub(v, m)
			}
		}
		return mkInt(v)
	case constant.String:
		return &StrVal{known: true, s: constant.StringVal(c.Value)}
	}
	e.fail("unsupported constant %s", c)
	return nil
}

// ---------------------------------------------------------------------------- loops

func loopHeaders(fn *ssa.Function) map[*ssa.BasicBlock]int {
	hdr := map[*ssa.BasicBlock]int{}
	var hs []*ssa.BasicBlock
	for _, b := range fn.Blocks {
		for _, s := range b.Succs {
			if s.Dominates(b) {
				if _, ok := hdr[s]; !ok {
					hdr[s] = 0
					hs = append(hs, s)
				}
			}
		}
	}
	sort.Slice(hs, func(i, j int) bool { return hs[i].Index < hs[j].Index })
	for i, h := range hs {
		hdr[h] = i
	}
	return hdr
}

// ---------------------------------------------------------------------------- execution

func (e *Engine) get(fr *Frame, v ssa.Value) Value {
	switch c := v.(type) {
	case *ssa.Const:
		return constValue(e, c)
	case *ssa.Global:
		r := e.globalRegion(c)
		return &PtrVal{reg: r, typ: c.Type()}
	case *ssa.Function:
		return &FuncVal{fn: c}
	case *ssa.Builtin:
		return &FuncVal{fn: c}
	}
	val, ok := fr.vals[v]
	if !ok {
		e.fail("use of undefined SSA value %s (%s) in %s", v.Name(), v, fr.fn)
	}
	return val
}

func (e *Engine) globalRegion(g *ssa.Global) *Region {
	if r, ok := e.globals[g]; ok {
		return r
	}
	t := g.Type().(*types.Pointer).Elem()
	r := e.newRegion(g.Pkg.Pkg.Name()+"."+g.Name(), t, false)
	r.global = true
	e.globals[g] = r
	return r
}

func (e *Engine) execFunction(st *State, fn *ssa.Function, args []Value, depth int, ctx *verifyCtx) []Exit {
	if fn.Blocks == nil {
		e.fail("function %s has no body", fn)
	}
	if depth > 40 {
		e.fail("inlining depth exceeded at %s", fn)
	}
	fr := &Frame{fn: fn, vals: map[ssa.Value]Value{}, depth: depth, loopHdr: loopHeaders(fn), ctx: ctx}
	for i, p := range fn.Params {
		fr.vals[p] = args[i]
	}
	return e.execFrom(st, fr, fn.Blocks[0], nil, 0)
}

// execFrom runs from instruction idx of block b; prev is the predecessor block (for phis).
func (e *Engine) execFrom(st *State, fr *Frame, b *ssa.BasicBlock, prev *ssa.BasicBlock, idx int) []Exit {
	for {
		e.steps++
		if e.steps > e.maxSteps {
			e.fail("step budget exceeded in %s", fr.fn)
		}
		if e.steps%64 == 0 && os.Getenv("VCGO_PROGRESS") != "" && time.Since(e.lastProgress) > 5*time.Second {
			e.lastProgress = time.Now()
			fmt.Fprintf(os.Stderr, "[progress] %s steps=%d obligations=%d feas=%d hyps=%d block=%d\n", e.curFunc, e.steps, len(e.obls), e.feasN, len(st.hyps), b.Index)
		}
		if e.steps%256 == 0 && !e.deadline.IsZero() && time.Now().After(e.deadline) {
			e.deadline = time.Time{}
			e.fail("time budget for symbolic execution exceeded in %s", fr.fn)
		}
		if idx == 0 {
			// loop header handling
			if ord, isHdr := fr.loopHdr[b]; isHdr && fr.contract != nil && fr.topLevel {
				if ls := fr.contract.Loops[ord]; ls != nil {
					isBack := prev != nil && b.Dominates(prev)
					if ex, done := e.loopHeader(st, fr, b, prev, ord, ls, isBack); done {
						return ex
					}
					// phis were handled by loopHeader
					idx = countPhis(b)
				}
			}
			if idx == 0 {
				// evaluate phis simultaneously
				var newVals []Value
				var phis []*ssa.Phi
				for _, in := range b.Instrs {
					ph, ok := in.(*ssa.Phi)
					if !ok {
						break
					}
					pi := -1
					for i, p := range b.Preds {
						if p == prev {
							pi = i
						}
					}
					if pi < 0 {
						e.fail("phi without predecessor")
					}
					newVals = append(newVals, e.get(fr, ph.Edges[pi]))
					phis = append(phis, ph)
				}
				for i, ph := range phis {
					fr.vals[ph] = newVals[i]
				}
				idx = len(phis)
			}
		}
		for ; idx < len(b.Instrs); idx++ {
			in := b.Instrs[idx]
			switch in := in.(type) {
			case *ssa.If:
				c := e.get(fr, in.Cond).(*Term)
				c = st.sub(c)
				if c.IsConst() {
					nb := b.Succs[1]
					if c.Val.Sign() != 0 {
						nb = b.Succs[0]
					}
					prev, b, idx = b, nb, 0
					goto nextBlock
				}
				if st.hypKeys[c.Key()] {
					prev, b, idx = b, b.Succs[0], 0
					goto nextBlock
				}
				if st.hypKeys[mkNot(c).Key()] {
					prev, b, idx = b, b.Succs[1], 0
					goto nextBlock
				}
				if e.concrete {
					e.fail("symbolic branch in ground evaluation: %s", c.Key())
				}
				st2 := st.fork()
				fr2 := fr.fork()
				st.assume(c)
				st2.assume(mkNot(c))
				var out []Exit
				st.visits[b]++
				st2.visits[b] = st.visits[b]
				if e.eagerPrune || st.visits[b] > 2 {
					if e.unsatisfiable(st.hyps) {
						st.hyps = append(st.hyps, tFalse)
					}
					if e.unsatisfiable(st2.hyps) {
						st2.hyps = append(st2.hyps, tFalse)
					}
				}
				if !st.infeasible() {
					out = append(out, e.guarded(st, func() []Exit { return e.execFrom(st, fr, b.Succs[0], b, 0) })...)
				}
				if !st2.infeasible() {
					out = append(out, e.guarded(st2, func() []Exit { return e.execFrom(st2, fr2, b.Succs[1], b, 0) })...)
				}
				return out
			case *ssa.Jump:
				prev, b, idx = b, b.Succs[0], 0
				goto nextBlock
			case *ssa.Return:
				var res []Value
				for _, r := range in.Results {
					res = append(res, e.get(fr, r))
				}
				return []Exit{{kind: "return", st: st, results: res}}
			case *ssa.Panic:
				msg := ""
				if iv, ok := e.get(fr, in.X).(*IfaceVal); ok {
					if sv, ok := iv.val.(*StrVal); ok && sv.known {
						msg = sv.s
					} else if iv.tag != "" {
						msg = iv.tag
					}
				}
				return []Exit{{kind: "panic", st: st, msg: msg}}
			case *ssa.Call:
				exits, cont := e.execCall(st, fr, in, b, prev, idx)
				if !cont {
					return exits
				}
			default:
				e.execInstr(st, fr, in)
				if c := st.pendingFork; c != nil {
					// `fork` clause of the contract: case analysis on a condition at this point
					st.pendingFork = nil
					st2 := st.fork()
					fr2 := fr.fork()
					h0 := len(st.hyps)
					st.assumeCase(c)
					st2.assumeCase(mkNot(c))
					st.markLabel(st.pendingForkName, h0)
					st2.markLabel(st.pendingForkName, h0)
					var out []Exit
					if !st.infeasible() && !e.unsatisfiable(st.hyps) {
						out = append(out, e.guarded(st, func() []Exit { return e.execFrom(st, fr, b, prev, idx+1) })...)
					}
					if !st2.infeasible() && !e.unsatisfiable(st2.hyps) {
						out = append(out, e.guarded(st2, func() []Exit { return e.execFrom(st2, fr2, b, prev, idx+1) })...)
					}
					return out
				}
				if v, ok := in.(ssa.Value); ok {
					if sp, ok := fr.vals[v].(*splitPtr); ok {
						// pointer to an element of an array of aggregates at a symbolic index: case split
						var out []Exit
						for j := int64(0); j < sp.n; j++ {
							c := st.sub(mkEq(sp.idx, mkInt64(j)))
							if knownFalse(st, c) {
								continue
							}
							sj := st.fork()
							fj := fr.fork()
							sj.assume(c)
							if sj.infeasible() {
								continue
							}
							fj.vals[v] = &PtrVal{reg: sp.base.reg, path: extend(sp.base.path, int(j)), typ: sp.typ}
							out = append(out, e.guarded(sj, func() []Exit { return e.execFrom(sj, fj, b, prev, idx+1) })...)
						}
						return out
					}
					if fl, ok := fr.vals[v].(*forkLoad); ok {
						st2 := st.fork()
						fr2 := fr.fork()
						st.assume(fl.cond)
						for _, h := range fl.thenAssume {
							st.assume(h)
						}
						st2.assume(mkNot(fl.cond))
						fr.vals[v] = fl.a
						fr2.vals[v] = fl.b
						var out []Exit
						if !st.infeasible() {
							out = append(out, e.guarded(st, func() []Exit { return e.execFrom(st, fr, b, prev, idx+1) })...)
						}
						if !st2.infeasible() {
							out = append(out, e.guarded(st2, func() []Exit { return e.execFrom(st2, fr2, b, prev, idx+1) })...)
						}
						return out
					}
				}
			}
		}
		e.fail("fell off the end of block %d in %s", b.Index, fr.fn)
	nextBlock:
	}
}

func countPhis(b *ssa.BasicBlock) int {
	n := 0
	for _, in := range b.Instrs {
		if _, ok := in.(*ssa.Phi); !ok {
			break
		}
		n++
	}
	return n
}

func (e *Engine) execInstr(st *State, fr *Frame, in ssa.Instruction) {
	switch in := in.(type) {
	case *ssa.DebugRef:
		idv, ok := in.Expr.(interface{ String() string })
		if !ok {
			return
		}
		// the name, and the baseline names it replaces after a rename (localsig.go)
		names := []string{idv.String()}
		if fr.topLevel {
			names = append(names, e.curAliases[idv.String()]...)
		}
		if in.IsAddr && fr.topLevel {
			// address-taken local: the name denotes the variable's storage
			if v, ok2 := fr.vals[in.X]; ok2 {
				if _, isPtr := v.(*PtrVal); isPtr {
					for _, nm := range names {
						if _, exists := st.names[nm]; !exists || st.weak[nm] {
							st.names[nm] = v
							st.weak[nm] = true // storage binding: does not make a cut ready
						}
					}
				}
			}
		}
		if !in.IsAddr {
			if v, ok2 := fr.vals[in.X]; ok2 && fr.topLevel {
				for _, nm := range names {
					st.names[nm] = v
					delete(st.weak, nm)
					if st.lastBind[nm] != in.X {
						st.lastBind[nm] = in.X
						st.binds[nm]++
					}
				}
				e.checkCuts(st, fr)
			} else if c, ok3 := in.X.(*ssa.Const); ok3 && fr.topLevel {
				// `var x T` declarations bind the zero constant: a weak binding that does not make a cut ready
				for _, nm := range names {
					st.names[nm] = constValue(e, c)
					st.weak[nm] = true
				}
				return
			}
			if fr.topLevel {
				for _, nm := range names {
					delete(st.weak, nm)
				}
			}
		}
	case *ssa.Alloc:
		t := in.Type().(*types.Pointer).Elem()
		r := e.newRegion(fr.fn.Name()+"."+in.Comment+fmt.Sprintf("#%d", e.regionN+1), t, true)
		r.created = st.epoch + 1
		e.initRegionZero(st, r)
		fr.vals[in] = &PtrVal{reg: r, typ: in.Type()}
	case *ssa.BinOp:
		fr.vals[in] = e.binop(st, fr, in.Op, e.get(fr, in.X), e.get(fr, in.Y), in.X.Type(), in.Type())
	case *ssa.UnOp:
		x := e.get(fr, in.X)
		switch in.Op {
		case token.MUL:
			fr.vals[in] = e.load(st, x.(*PtrVal), fr)
		case token.NOT:
			fr.vals[in] = mkNot(x.(*Term))
		case token.SUB:
			fr.vals[in] = wrapToType(mkNeg(x.(*Term)), in.Type())
		case token.XOR:
			w := bitWidth(in.Type())
			if isSigned(in.Type()) {
				fr.vals[in] = mkSub(mkInt64(-1), x.(*Term))
			} else {
				all := new(big.Int).Sub(new(big.Int).Lsh(big1, uint(w)), big1)
				fr.vals[in] = mkSub(mkInt(all), x.(*Term))
			}
		default:
			e.fail("unsupported unary op %s", in.Op)
		}
	case *ssa.ChangeType:
		fr.vals[in] = e.get(fr, in.X)
	case *ssa.ChangeInterface:
		fr.vals[in] = e.get(fr, in.X)
	case *ssa.Convert:
		fr.vals[in] = e.convert(st, e.get(fr, in.X), in.X.Type(), in.Type())
	case *ssa.Extract:
		tv := e.get(fr, in.Tuple).(*TupleVal)
		fr.vals[in] = tv.elems[in.Index]
	case *ssa.FieldAddr:
		p := e.get(fr, in.X).(*PtrVal)
		if p.null {
			e.fail("field address of nil pointer in %s", fr.fn)
		}
		fr.vals[in] = &PtrVal{reg: p.reg, path: extend(p.path, in.Field), typ: in.Type()}
	case *ssa.Field:
		a := e.get(fr, in.X).(*AggVal)
		fr.vals[in] = a.elems[in.Field]
	case *ssa.Index:
		switch a := e.get(fr, in.X).(type) {
		case *AggVal:
			i := e.get(fr, in.Index).(*Term)
			if !i.IsConst() {
				e.fail("symbolic index into array value")
			}
			fr.vals[in] = a.elems[i.Val.Int64()]
		case *StrVal:
			i := e.get(fr, in.Index).(*Term)
			if !a.known || !i.IsConst() {
				e.fail("symbolic string index")
			}
			fr.vals[in] = mkInt64(int64(a.s[i.Val.Int64()]))
		default:
			e.fail("Index on %T", a)
		}
	case *ssa.IndexAddr:
		fr.vals[in] = e.indexAddr(st, fr, in)
	case *ssa.Slice:
		fr.vals[in] = e.sliceOp(st, fr, in)
	case *ssa.SliceToArrayPointer:
		s := e.get(fr, in.X).(*SliceVal)
		at := in.Type().(*types.Pointer).Elem().Underlying().(*types.Array)
		e.addObligation(st, fr, "safety", "slice2array", mkGe(s.length, mkInt64(at.Len())), fmt.Sprintf("len >= %d for slice to array pointer conversion", at.Len()))
		st.assume(mkGe(s.length, mkInt64(at.Len())))
		fr.vals[in] = e.arrayPointerOfSlice(st, s, at, in.Type())
	case *ssa.Store:
		e.store(st, e.get(fr, in.Addr).(*PtrVal), e.get(fr, in.Val))
	case *ssa.MakeInterface:
		x := e.get(fr, in.X)
		fr.vals[in] = &IfaceVal{null: tFalse, dyn: in.X.Type(), val: x}
	case *ssa.MakeClosure:
		fv := &FuncVal{fn: in.Fn}
		for _, b := range in.Bindings {
			fv.bind = append(fv.bind, e.get(fr, b))
		}
		fr.vals[in] = fv
	case *ssa.MakeSlice:
		fr.vals[in] = e.makeSlice(st, fr, in)
	case *ssa.TypeAssert:
		fr.vals[in] = e.typeAssert(st, fr, in)
	default:
		e.fail("unsupported SSA instruction %T (%s) in %s", in, in, fr.fn)
	}
}

func (e *Engine) convert(st *State, x Value, from, to types.Type) Value {
	switch v := x.(type) {
	case *Term:
		if v.Sort == SInt {
			if _, ok := underlying(to).(*types.Basic); ok && bitWidth(to) > 0 {
				return wrapToType(v, to)
			}
		}
		return v
	case *StrVal:
		// string -> []byte
		if sl, ok := underlying(to).(*types.Slice); ok && v.known {
			return e.bytesOfString(st, v.s, sl.Elem())
		}
		return v
	case *SliceVal:
		if b, ok := underlying(to).(*types.Basic); ok && b.Info()&types.IsString != 0 {
			return &StrVal{sym: v}
		}
		return v
	case *PtrVal:
		// unsafe.Pointer round trips keep (region,path); a cast to a pointer to a *shorter array of the same
		// element type* is a prefix view (Go arrays are contiguous)
		if _, isPtr := underlying(to).(*types.Pointer); isPtr && !v.null {
			n := *v
			n.typ = to
			return &n
		}
		return v
	}
	e.fail("unsupported conversion %s -> %s", from, to)
	return nil
}

func (e *Engine) bytesOfString(st *State, s string, elem types.Type) *SliceVal {
	at := types.NewArray(elem, int64(len(s)))
	r := e.newRegion(fmt.Sprintf("bytes(%q)", trunc(s, 24)), at, true)
	r.created = st.epoch + 1
	for i := 0; i < len(s); i++ {
		st.mem.cells[pathKey(r.id, []int{i})] = mkInt64(int64(s[i]))
	}
	n := mkInt64(int64(len(s)))
	return &SliceVal{reg: r, off: mkInt64(0), length: n, capacity: n, elem: elem, backingN: int64(len(s))}
}

func trunc(s string, n int) string {
	if len(s) > n {
		return s[:n] + "..."
	}
	return s
}

func (e *Engine) arrayPointerOfSlice(st *State, s *SliceVal, at *types.Array, pt types.Type) *PtrVal {
	if s.reg.dyn {
		// view of a dynamic region as an array: materialise a fresh expanded copy is unsound for writes;
		// instead create an alias region whose cells are selects (read-only use is the only one in this code base).
		r := e.newRegion(s.reg.name+"[view]", at, true)
		r.ronly = true
		for i := int64(0); i < at.Len(); i++ {
			st.mem.cells[pathKey(r.id, []int{int(i)})] = e.sliceElem(st, s, mkInt64(i))
		}
		return &PtrVal{reg: r, typ: pt}
	}
	if !s.off.IsConst() {
		e.fail("slice to array pointer with symbolic offset")
	}
	off := s.off.Val.Int64()
	if off == 0 && s.backingN == at.Len() {
		return &PtrVal{reg: s.reg, path: s.path, typ: pt}
	}
	// sub-array view: represent as a window region aliasing the parent cells.
	r := e.windowRegion(st, s.reg, s.path, off, at)
	return &PtrVal{reg: r, typ: pt}
}

// windowRegion: array view [off, off+len) of a bigger array; implemented by sharing cell keys through
// an alias table.
func (e *Engine) windowRegion(st *State, parent *Region, path []int, off int64, at *types.Array) *Region {
	r := e.newRegion(fmt.Sprintf("%s%s[%d:%d]", parent.name, pathName(parent.typ, path), off, off+at.Len()), at, parent.fresh)
	r.global = parent.global
	win := &windowInfo{parent: parent, path: path, off: off}
	if e.windows == nil {
		e.windows = map[int]*windowInfo{}
	}
	e.windows[r.id] = win
	// copy-in: cells of the window are kept in sync by resolving at access time (see resolveWindow)
	return r
}

type windowInfo struct {
	parent *Region
	path   []int
	off    int64
}

func (e *Engine) indexAddr(st *State, fr *Frame, in *ssa.IndexAddr) Value {
	idx := e.get(fr, in.Index).(*Term)
	idx = st.sub(idx)
	switch x := e.get(fr, in.X).(type) {
	case *PtrVal:
		at := underlying(x.typ.(*types.Pointer).Elem()).(*types.Array)
		inb := mkAnd(mkLe(mkInt64(0), idx), mkLt(idx, mkInt64(at.Len())))
		e.addObligation(st, fr, "safety", "index", inb, fmt.Sprintf("index in [0,%d)", at.Len()))
		st.assume(inb)
		if idx.IsConst() {
			return &PtrVal{reg: x.reg, path: extend(x.path, int(idx.Val.Int64())), typ: in.Type()}
		}
		if isScalarType(at.Elem()) {
			return &PtrVal{reg: x.reg, path: x.path, sym: idx, typ: in.Type()}
		}
		// array of aggregates: the caller forks (handled in execFrom via splitIndex)
		return &splitPtr{base: x, idx: idx, n: at.Len(), typ: in.Type()}
	case *SliceVal:
		if x.reg == nil {
			e.addObligation(st, fr, "safety", "index", tFalse, "index into nil slice")
			e.fail("index into nil slice")
		}
		inb := mkAnd(mkLe(mkInt64(0), idx), mkLt(idx, x.length))
		e.addObligation(st, fr, "safety", "index", inb, "slice index in range")
		st.assume(inb)
		abs := mkAdd(x.off, idx)
		if x.reg.dyn {
			return &PtrVal{reg: x.reg, sym: abs, typ: in.Type()}
		}
		if abs.IsConst() {
			return &PtrVal{reg: x.reg, path: extend(x.path, int(abs.Val.Int64())), typ: in.Type()}
		}
		if isScalarType(x.elem) {
			return &PtrVal{reg: x.reg, path: x.path, sym: abs, typ: in.Type()}
		}
		return &splitPtr{base: &PtrVal{reg: x.reg, path: x.path}, idx: abs, n: x.backingN, typ: in.Type()}
	}
	e.fail("IndexAddr on unsupported value")
	return nil
}

// forkLoad: a load whose result depends on a condition that must be path-split (aliased family element)
type forkLoad struct {
	cond       *Term
	a, b       Value
	thenAssume []*Term // assumed in the branch where cond holds
}

// splitPtr marks a pointer whose index must be case-split (array of aggregates).
type splitPtr struct {
	base *PtrVal
	idx  *Term
	n    int64
	typ  types.Type
}

func (e *Engine) sliceOp(st *State, fr *Frame, in *ssa.Slice) Value {
	var lo, hi, max *Term
	if in.Low != nil {
		lo = e.get(fr, in.Low).(*Term)
	} else {
		lo = mkInt64(0)
	}
	if in.High != nil {
		hi = e.get(fr, in.High).(*Term)
	}
	if in.Max != nil {
		max = e.get(fr, in.Max).(*Term)
	}
	switch x := e.get(fr, in.X).(type) {
	case *PtrVal: // pointer to array
		at := underlying(x.typ.(*types.Pointer).Elem()).(*types.Array)
		n := mkInt64(at.Len())
		if hi == nil {
			hi = n
		}
		if max == nil {
			max = n
		}
		ok := mkAnd(mkLe(mkInt64(0), lo), mkLe(lo, hi), mkLe(hi, max), mkLe(max, n))
		e.addObligation(st, fr, "safety", "slice", ok, "slice bounds in range")
		st.assume(ok)
		r, path, baseOff := e.resolveWindow(x.reg, x.path)
		return &SliceVal{reg: r, path: path, off: mkAdd(mkInt64(baseOff), lo), length: mkSub(hi, lo), capacity: mkSub(max, lo), elem: at.Elem(), backingN: e.backingLen(r, path)}
	case *SliceVal:
		if hi == nil {
			hi = x.length
		}
		if max == nil {
			max = x.capacity
		}
		ok := mkAnd(mkLe(mkInt64(0), lo), mkLe(lo, hi), mkLe(hi, max), mkLe(max, x.capacity))
		e.addObligation(st, fr, "safety", "slice", ok, "slice bounds in range")
		st.assume(ok)
		if x.reg == nil {
			return x
		}
		return &SliceVal{reg: x.reg, path: x.path, off: mkAdd(x.off, lo), length: mkSub(hi, lo), capacity: mkSub(max, lo), elem: x.elem, backingN: x.backingN}
	case *StrVal:
		if x.known && lo.IsConst() && (hi == nil || hi.IsConst()) {
			h := int64(len(x.s))
			if hi != nil {
				h = hi.Val.Int64()
			}
			return &StrVal{known: true, s: x.s[lo.Val.Int64():h]}
		}
	}
	e.fail("unsupported slice operation in %s", fr.fn)
	return nil
}

func (e *Engine) backingLen(r *Region, path []int) int64 {
	if r.dyn {
		return -1
	}
	return underlying(subType(r.typ, path)).(*types.Array).Len()
}

// resolveWindow maps a (window region, path) to the parent region coordinates.
func (e *Engine) resolveWindow(r *Region, path []int) (*Region, []int, int64) {
	if w, ok := e.windows[r.id]; ok && len(path) == 0 {
		return w.parent, w.path, w.off
	}
	return r, path, 0
}

func (e *Engine) makeSlice(st *State, fr *Frame, in *ssa.MakeSlice) Value {
	n := e.get(fr, in.Len).(*Term)
	c := e.get(fr, in.Cap).(*Term)
	elem := underlying(in.Type()).(*types.Slice).Elem()
	if c.IsConst() && c.Val.Int64() <= 4096 {
		at := types.NewArray(elem, c.Val.Int64())
		r := e.newRegion(fr.fn.Name()+".make#"+fmt.Sprint(e.regionN+1), at, true)
		r.created = st.epoch + 1
		e.initRegionZero(st, r)
		return &SliceVal{reg: r, off: mkInt64(0), length: n, capacity: c, elem: elem, backingN: c.Val.Int64()}
	}
	if !isScalarType(elem) {
		e.fail("make of symbolic-length slice of non-scalars in %s", fr.fn)
	}
	r := e.newRegion(fr.fn.Name()+".make#"+fmt.Sprint(e.regionN+1), elem, true)
	r.created = st.epoch + 1
	r.dyn = true
	r.dynLen = c
	st.mem.cells[pathKey(r.id, nil)] = mkApp("zeroarr", SArr)
	return &SliceVal{reg: r, off: mkInt64(0), length: n, capacity: c, elem: elem, backingN: -1}
}

func (e *Engine) typeAssert(st *State, fr *Frame, in *ssa.TypeAssert) Value {
	iv := e.get(fr, in.X).(*IfaceVal)
	var ok *Term
	var val Value
	if iv.dyn != nil {
		if types.Identical(iv.dyn, in.AssertedType) {
			ok = mkNot(iv.null)
			val = iv.val
		} else {
			ok = tFalse
			val = e.zeroValue(in.AssertedType)
		}
	} else if iv.null.IsConst() && iv.null.Val.Sign() != 0 {
		ok = tFalse
		val = e.zeroValue(in.AssertedType)
	} else if excludedDyn(iv, in.AssertedType) {
		ok = tFalse
		val = e.zeroValue(in.AssertedType)
	} else {
		// unknown dynamic type: either it is the asserted type (a fresh symbolic object of that type,
		// with its type invariants) or it is not
		if !in.CommaOk {
			e.fail("type assertion (panicking form) on interface of unknown dynamic type in %s", fr.fn)
		}
		c := mkVar(e.freshName("istype"), SBool)
		val2 := e.makeParamValue(st, e.freshName("asserted"), in.AssertedType, -1, 0)
		var invs []*Term
		for _, inv := range e.invariantsOfValue(st, val2, in.AssertedType, "asserted") {
			invs = append(invs, inv.t)
		}
		return &forkLoad{cond: c, a: &TupleVal{elems: []Value{val2, tTrue}}, b: &TupleVal{elems: []Value{e.zeroValue(in.AssertedType), tFalse}}, thenAssume: invs}
	}
	if in.CommaOk {
		return &TupleVal{elems: []Value{val, ok}}
	}
	e.addObligation(st, fr, "safety", "typeassert", ok, "type assertion succeeds")
	return val
}

func excludedDyn(iv *IfaceVal, t types.Type) bool {
	for _, x := range iv.notDyn {
		if types.Identical(x, t) {
			return true
		}
	}
	return false
}

func describeValue(v Value) string {
	switch x := v.(type) {
	case *Term:
		return x.Key()
	case *PtrVal:
		if x.null {
			return "nil"
		}
		return "&" + x.reg.name + pathName(x.reg.typ, x.path)
	case *SliceVal:
		if x.reg == nil {
			return "nil-slice"
		}
		return fmt.Sprintf("%s[%s:+%s]", x.reg.name, x.off.Key(), x.length.Key())
	}
	return fmt.Sprintf("%T", v)
}

var _ = strings.Join

// guarded runs one side of a fork; an engine error on a path whose path condition is unsatisfiable
// (decided by the solver) is dropped together with the path.
func (e *Engine) guarded(st *State, f func() []Exit) (out []Exit) {
	hyps := append([]*Term{}, st.hyps...)
	defer func() {
		if r := recover(); r != nil {
			ee, ok := r.(engineError)
			if !ok {
				// an internal failure of the engine (unsupported shape of code) is an engine error on this
				// path, not a crash of the whole run
				if os.Getenv("VCGO_PANIC") != "" {
					panic(r)
				}
				ee = engineError{msg: fmt.Sprintf("internal engine failure: %v (%s)", r, panicSite())}
			}
			if e.unsatisfiable(hyps) {
				if os.Getenv("VCGO_TRACE") != "" {
					fmt.Fprintf(os.Stderr, "[trace] %s: path dropped after engine error on an unsatisfiable path: %s\n", e.curFunc, ee.msg)
				}
				out = nil
				return
			}
			panic(ee)
		}
	}()
	return f()
}

func (e *Engine) unsatisfiable(hyps []*Term) bool {
	e.feasN++
	if !e.deadline.IsZero() && time.Now().After(e.deadline) {
		e.deadline = time.Time{}
		e.fail("time budget for symbolic execution exceeded (feasibility checks)")
	}
	e.varN++
	hs := append(append([]*Term{}, hyps...), bitUFFacts(hyps)...)
	q := &Query{Name: fmt.Sprintf("feas_%s_%d", e.curFunc, e.varN), Hyps: hs, Goal: tFalse}
	r := solve(q, 2)
	return r.Status == "unsat"
}

// panicSite: the innermost engine frame of the panic being recovered.
func panicSite() string {
	pcs := make([]uintptr, 32)
	n := runtime.Callers(3, pcs)
	fr := runtime.CallersFrames(pcs[:n])
	for {
		f, more := fr.Next()
		if strings.Contains(f.File, "/vcgo/") && !strings.Contains(f.Function, "guarded") && !strings.Contains(f.Function, "panicSite") {
			return fmt.Sprintf("%s:%d", filepath.Base(f.File), f.Line)
		}
		if !more {
			break
		}
	}
	return "?"
}

// mkBe: the n-byte big-endian representation of the integer x, as an array of bytes (uninterpreted; its
// defining property -- the bytes are the base-256 digits of x -- is supplied to the solvers per use).
func mkBe(n int64, x *Term) *Term {
	t := &Term{Op: "app", Sort: SArr, Name: "be", Val: big.NewInt(n), Args: []*Term{x}}
	t.Lo, t.Hi = big0, big.NewInt(255)
	return t
}

// os2ipRaw: the big-endian value polynomial without the be() collapse of os2ipTerms.
func os2ipRaw(bs []*Term) *Term {
	r := mkInt64(0)
	for _, b := range bs {
		r = mkAdd(mkScale(r, big.NewInt(256)), b)
	}
	return r
}

// beDigits recognises  sum_i 256^(n-1-i) * A[o+i]  over a callee-created array A (n >= 2) and returns A, o, n.
func beDigits(t *Term) (arr *Term, off, n int64, ok bool) {
	if t.Op != "poly" || len(t.P.t) < 2 {
		return nil, 0, 0, false
	}
	type dig struct {
		idx int64
		c   *big.Int
	}
	var ds []dig
	for _, e := range t.P.t {
		if len(e.m.f) != 1 || e.m.f[0].exp.Cmp(big1) != 0 {
			return nil, 0, 0, false
		}
		a := e.m.f[0].atom
		if a.Op != "select" || a.Args[0].Op != "var" || !strings.Contains(a.Args[0].Name, "!") || !a.Args[1].IsConst() {
			return nil, 0, 0, false
		}
		if arr == nil {
			arr = a.Args[0]
		} else if arr.Key() != a.Args[0].Key() {
			return nil, 0, 0, false
		}
		ds = append(ds, dig{a.Args[1].Val.Int64(), e.c})
	}
	sort.Slice(ds, func(i, j int) bool { return ds[i].idx < ds[j].idx })
	n = int64(len(ds))
	off = ds[0].idx
	for i, d := range ds {
		if d.idx != off+int64(i) || d.c.Cmp(new(big.Int).Lsh(big1, uint(8*(n-1-int64(i))))) != 0 {
			return nil, 0, 0, false
		}
	}
	return arr, off, n, true
}

// firstDiff descends two terms in parallel to the smallest pair of differing subterms (debugging aid).
func firstDiff(a, b *Term, depth int) (*Term, *Term) {
	if a.Key() == b.Key() {
		return nil, nil
	}
	if depth > 60 {
		return a, b
	}
	for a.Op == "not" && b.Op != "not" {
		a = a.Args[0]
	}
	for b.Op == "not" && a.Op != "not" {
		b = b.Args[0]
	}
	if a.Op == "poly" && b.Op == "poly" {
		ka, kb := a.P.sortedKeys(), b.P.sortedKeys()
		if len(ka) == len(kb) {
			for i := range ka {
				ea, eb := a.P.t[ka[i]], b.P.t[kb[i]]
				if len(ea.m.f) == len(eb.m.f) {
					for j := range ea.m.f {
						if x, y := firstDiff(ea.m.f[j].atom, eb.m.f[j].atom, depth+1); x != nil {
							return x, y
						}
					}
				}
			}
		}
		return a, b
	}
	if a.Op == b.Op && a.Name == b.Name && len(a.Args) == len(b.Args) && len(a.Args) > 0 {
		for i := range a.Args {
			if x, y := firstDiff(a.Args[i], b.Args[i], depth+1); x != nil {
				return x, y
			}
		}
	}
	return a, b
}

func init() {
	// commutative bit functions keep their arguments ordered when rebuilt after a substitution
	for _, n := range []string{"bxor", "bor", "band"} {
		appRebuilders[n] = func(t *Term, args []*Term) *Term {
			a, b := args[0], args[1]
			if a.Key() > b.Key() {
				a, b = b, a
			}
			c := *t
			c.Args = []*Term{a, b}
			c.key = ""
			return &c
		}
	}
}

func (s *State) markWritten(key string) {
	if s.written == nil {
		s.written = map[string]bool{}
	}
	s.written[key] = true
}
