package main

// Evaluation of contract expressions (Go expression syntax, see contract.go) to terms.

import (
	"fmt"
	"go/ast"
	"go/constant"
	"go/token"
	"go/types"
	"math/big"
	"os"
	"strings"
)

// RefVal is an lvalue inside an expanded region (not yet loaded).
type RefVal struct {
	reg  *Region
	path []int
	typ  types.Type
}

// RangeRef is a sub-range of a byte region (for modifies / unchanged on slices).
type RangeRef struct {
	s *SliceVal
}

type SpecEnv struct {
	resultDefined map[int]bool // results assigned by `resultK == ...` clauses (call-site evaluation)
	e             *Engine
	st            *State
	old           *State
	vars          map[string]Value
	results       []Value
	resName       []string
	pkg           *types.Package
	inOld         bool
	lemma         bool
	fnName        string
}

func (env *SpecEnv) fail(format string, args ...interface{}) {
	env.e.fail("spec(%s): %s", env.fnName, fmt.Sprintf(format, args...))
}

func (env *SpecEnv) state() *State {
	if env.inOld && env.old != nil {
		return env.old
	}
	return env.st
}

var specConsts = map[string]*big.Int{
	"P": bigP, "N": bigN, "W": bigW, "R": bigR,
	"W2": new(big.Int).Lsh(big1, 128), "W3": new(big.Int).Lsh(big1, 192), "W4": bigR, "W5": new(big.Int).Lsh(big1, 320),
	"R2P": new(big.Int).Mod(new(big.Int).Mul(bigR, bigR), bigP), "R2N": new(big.Int).Mod(new(big.Int).Mul(bigR, bigR), bigN),
	"HALFN":  new(big.Int).Rsh(bigN, 1),
	"LAMBDA": hexBig("5363ad4cc05c30e0a5261c028812645a122e22ea20816678df02967c1b23bd72"),
	"BETA":   hexBig("7ae96a2b657c07106e64479eac3434e99cf0497512f58995c1396c28719501ee"),
	"GLV_A1": hexBig("3086d221a7d46bcde86c90e49284eb15"), "GLV_NB1": hexBig("e4437ed6010e88286f547fa90abfe4c3"),
	"GLV_A2": hexBig("114ca50f7a8e2f3f657c1108d9d44cfd8"), "GLV_B2": hexBig("3086d221a7d46bcde86c90e49284eb15"),
	"GLV_G1": hexBig("3086d221a7d46bcde86c90e49284eb153daa8a1471e8ca7fe893209a45dbb031"),
	"GLV_G2": hexBig("e4437ed6010e88286f547fa90abfe4c4221208ac9df506c61571b4ae8ac47f71"),
	"T128":   new(big.Int).Lsh(big1, 128), "T383": new(big.Int).Lsh(big1, 383), "T384": new(big.Int).Lsh(big1, 384),
	"GX": hexBig("79be667ef9dcbbac55a06295ce870b07029bfcdb2dce28d959f2815b16f81798"),
	"GY": hexBig("483ada7726a3c4655da4fbfc0e1108a8fd17b448a68554199c47d08ffb10d4b8"),
}

func hexBig(s string) *big.Int {
	v, ok := new(big.Int).SetString(s, 16)
	if !ok {
		panic("bad hex constant")
	}
	return v
}

func (env *SpecEnv) term(x ast.Expr) *Term {
	v := env.eval(x)
	return env.toTerm(v, x)
}

func (env *SpecEnv) toTerm(v Value, x ast.Expr) *Term {
	switch t := v.(type) {
	case *Term:
		if len(env.state().subst) > 0 {
			return env.state().sub(t)
		}
		return t
	case *RefVal:
		lv := env.e.loadPath(env.state(), t.reg, t.path, t.typ)
		if tt, ok := lv.(*Term); ok {
			return tt
		}
		env.fail("expression %s is not scalar", exprString(x))
	case *PtrVal:
		// name of an address-taken scalar local: its current contents
		if !t.null && !t.reg.dyn && t.sym == nil && isScalarType(subType(t.reg.typ, t.path)) {
			return env.toTerm(env.e.load(env.state(), t, nil), x)
		}
	}
	env.fail("expression %s does not denote a term (%T)", exprString(x), v)
	return nil
}

// knownTrue / knownFalse: cheap syntactic entailment from the hypotheses of a state.
func knownTrue(st *State, t *Term) bool {
	if t.IsConst() {
		return t.Val.Sign() != 0
	}
	if st.hypKeys[t.Key()] {
		return true
	}
	switch t.Op {
	case "and":
		for _, a := range t.Args {
			if !knownTrue(st, a) {
				return false
			}
		}
		return true
	case "not":
		return knownFalse(st, t.Args[0])
	}
	return false
}

func knownFalse(st *State, t *Term) bool {
	if t.IsConst() {
		return t.Val.Sign() == 0
	}
	if st.hypKeys[mkNot(t).Key()] {
		return true
	}
	switch t.Op {
	case "and":
		for _, a := range t.Args {
			if knownFalse(st, a) {
				return true
			}
		}
		// a hypothesis not(and(S)) with S among the conjuncts (or known) refutes the conjunction
		keys := map[string]bool{}
		for _, a := range t.Args {
			keys[a.Key()] = true
		}
		for _, h := range st.hyps {
			if h.Op != "not" || h.Args[0].Op != "and" {
				continue
			}
			sub, hit := true, false
			for _, a := range h.Args[0].Args {
				if keys[a.Key()] {
					hit = true
				} else if !st.hypKeys[a.Key()] {
					sub = false
					break
				}
			}
			if sub && hit {
				return true
			}
		}
		return false
	case "not":
		return knownTrue(st, t.Args[0])
	}
	return false
}

func (env *SpecEnv) boolTerm(x ast.Expr) *Term {
	t := env.term(x)
	if t.Sort != SBool {
		env.fail("expression %s is not boolean", exprString(x))
	}
	return t
}

func exprString(x ast.Expr) string {
	return types.ExprString(x)
}

// deref turns a pointer value into a RefVal of its pointee.
func (env *SpecEnv) deref(v Value, x ast.Expr) *RefVal {
	switch p := v.(type) {
	case *PtrVal:
		if p.null {
			env.fail("dereference of nil pointer in %s", exprString(x))
		}
		if p.sym != nil || p.reg.dyn {
			env.fail("dereference of symbolic-index pointer in %s", exprString(x))
		}
		return &RefVal{reg: p.reg, path: p.path, typ: subType(p.reg.typ, p.path)}
	case *RefVal:
		// ref to a pointer cell
		lv := env.e.loadPath(env.state(), p.reg, p.path, p.typ)
		if pp, ok := lv.(*PtrVal); ok {
			return env.deref(pp, x)
		}
		return p
	}
	env.fail("cannot dereference %T in %s", v, exprString(x))
	return nil
}

// asRef: pointer or ref -> ref to the object (auto-deref pointers).
func (env *SpecEnv) asRef(v Value, x ast.Expr) *RefVal {
	switch p := v.(type) {
	case *AggVal:
		// aggregate value (e.g. a table returned by value): view it through a scratch region
		key := fmt.Sprintf("agg:%p", p)
		if rv, ok := env.state().ghost[key]; ok {
			return rv.(*RefVal)
		}
		r := env.e.newRegion("value$"+exprString(x), p.typ, true)
		env.e.storePath(env.state(), r, nil, p.typ, p)
		rv := &RefVal{reg: r, typ: p.typ}
		env.state().ghost[key] = rv
		return rv
	case *PtrVal:
		return env.deref(p, x)
	case *RefVal:
		if _, ok := underlying(p.typ).(*types.Pointer); ok {
			return env.deref(p, x)
		}
		return p
	}
	env.fail("expected pointer or lvalue, got %T in %s", v, exprString(x))
	return nil
}

func (env *SpecEnv) loadRef(r *RefVal) Value {
	return env.e.loadPath(env.state(), r.reg, r.path, r.typ)
}

func (env *SpecEnv) eval(x ast.Expr) Value {
	switch n := x.(type) {
	case *ast.ParenExpr:
		return env.eval(n.X)
	case *ast.BasicLit:
		switch n.Kind {
		case token.INT:
			v, ok := new(big.Int).SetString(strings.ReplaceAll(n.Value, "_", ""), 0)
			if !ok {
				env.fail("bad integer literal %s", n.Value)
			}
			return mkInt(v)
		case token.STRING:
			return &StrVal{known: true, s: strings.Trim(n.Value, "\"`")}
		}
		env.fail("unsupported literal %s", n.Value)
	case *ast.Ident:
		return env.ident(n)
	case *ast.TypeAssertExpr:
		// x.(*T): the value inside an interface whose dynamic type is known to be *T
		iv, ok := env.eval(n.X).(*IfaceVal)
		if !ok || iv.dyn == nil || iv.val == nil {
			env.fail("%s: the dynamic type is not known here", exprString(x))
		}
		if want := exprString(n.Type); !strings.HasSuffix(types.TypeString(iv.dyn, func(*types.Package) string { return "" }), strings.TrimPrefix(want, "*")) {
			env.fail("%s: dynamic type is %s", exprString(x), iv.dyn)
		}
		return iv.val
	case *ast.StarExpr:
		return env.deref(env.eval(n.X), x)
	case *ast.UnaryExpr:
		switch n.Op {
		case token.NOT:
			return mkNot(env.boolTerm(n.X))
		case token.SUB:
			return mkNeg(env.term(n.X))
		case token.AND:
			r := env.asRef(env.eval(n.X), x)
			return &PtrVal{reg: r.reg, path: r.path, typ: types.NewPointer(r.typ)}
		}
	case *ast.BinaryExpr:
		return env.binary(n)
	case *ast.SelectorExpr:
		return env.selector(n)
	case *ast.IndexExpr:
		return env.index(n)
	case *ast.SliceExpr:
		return env.sliceExpr(n)
	case *ast.CallExpr:
		return env.call(n)
	}
	env.fail("unsupported expression %s", exprString(x))
	return nil
}

func (env *SpecEnv) ident(n *ast.Ident) Value {
	name := n.Name
	switch name {
	case "true":
		return tTrue
	case "false":
		return tFalse
	case "nil":
		return &PtrVal{null: true}
	case "result":
		if len(env.results) == 0 {
			env.fail("no result available")
		}
		return env.results[0]
	case "O":
		return tPtO
	case "G":
		return mkApp("G", SPt)
	}
	if strings.HasPrefix(name, "result") && len(name) == 7 && name[6] >= '0' && name[6] <= '9' {
		i := int(name[6] - '0')
		if i >= len(env.results) {
			env.fail("no result %d", i)
		}
		return env.results[i]
	}
	for i, rn := range env.resName {
		if rn == name && i < len(env.results) {
			return env.results[i]
		}
	}
	if v, ok := env.vars[name]; ok {
		return v
	}
	if c, ok := specConsts[name]; ok {
		return mkInt(c)
	}
	if v, ok := env.state().names[name]; ok {
		return v
	}
	if env.pkg != nil {
		if obj := env.pkg.Scope().Lookup(name); obj != nil {
			switch o := obj.(type) {
			case *types.Const:
				if o.Val().Kind() == constant.Int {
					v, _ := new(big.Int).SetString(o.Val().ExactString(), 10)
					return mkInt(v)
				}
			case *types.Var:
				// package-level variable
				if g := env.e.findGlobal(env.pkg.Path(), name); g != nil {
					r := env.e.globalRegion(g)
					return &RefVal{reg: r, typ: r.typ}
				}
			}
		}
	}
	env.fail("unknown identifier %s", name)
	return nil
}

func (env *SpecEnv) binary(n *ast.BinaryExpr) Value {
	switch n.Op {
	case token.LAND:
		// short-circuit: the right operand is evaluated only if the left one may hold
		l := env.state().sub(env.boolTerm(n.X))
		if knownFalse(env.state(), l) {
			return tFalse
		}
		return mkAnd(l, env.boolTerm(n.Y))
	case token.LOR:
		l := env.state().sub(env.boolTerm(n.X))
		if knownTrue(env.state(), l) {
			return tTrue
		}
		return mkOr(l, env.boolTerm(n.Y))
	case token.EQL, token.NEQ:
		l, r := env.eval(n.X), env.eval(n.Y)
		eq := env.equal(l, r, n)
		if n.Op == token.NEQ {
			return mkNot(eq)
		}
		return eq
	}
	a, b := env.term(n.X), env.term(n.Y)
	// coerce Int literals/terms to residue sort of the other operand
	if a.Sort != b.Sort {
		if a.Sort == SInt && modulusOf(b.Sort) != nil {
			a = mkToRing(b.Sort, a)
		} else if b.Sort == SInt && modulusOf(a.Sort) != nil {
			b = mkToRing(a.Sort, b)
		} else {
			env.fail("sort mismatch in %s", exprString(n))
		}
	}
	switch n.Op {
	case token.ADD:
		return mkAdd(a, b)
	case token.SUB:
		return mkSub(a, b)
	case token.MUL:
		return mkMul(a, b)
	case token.QUO:
		if a.Sort == SInt {
			if !b.IsConst() {
				env.fail("integer division by non-constant in %s", exprString(n))
			}
			return mkDivC(a, b.Val)
		}
		return mkMul(a, mkPow(b, new(big.Int).Sub(modulusOf(a.Sort), big2)))
	case token.REM:
		if !b.IsConst() {
			env.fail("mod by non-constant in %s", exprString(n))
		}
		return mkModC(a, b.Val)
	case token.LSS:
		return mkLt(a, b)
	case token.LEQ:
		return mkLe(a, b)
	case token.GTR:
		return mkGt(a, b)
	case token.GEQ:
		return mkGe(a, b)
	case token.SHL:
		return mkScale(a, new(big.Int).Lsh(big1, uint(b.Val.Uint64())))
	case token.SHR:
		return mkDivC(a, new(big.Int).Lsh(big1, uint(b.Val.Uint64())))
	}
	env.fail("unsupported operator in %s", exprString(n))
	return nil
}

func (env *SpecEnv) equal(l, r Value, n ast.Expr) *Term {
	if lr, ok := l.(*RefVal); ok {
		l = env.loadRef(lr)
	}
	if rr, ok := r.(*RefVal); ok {
		r = env.loadRef(rr)
	}
	switch a := l.(type) {
	case *Term:
		b, ok := r.(*Term)
		if !ok {
			env.fail("comparison of term with %T in %s", r, exprString(n))
		}
		a = env.state().sub(a)
		b = env.state().sub(b)
		return mkEq(a, b)
	case *PtrVal:
		switch b := r.(type) {
		case *PtrVal:
			return env.e.valuesEqual(env.state(), a, b)
		case *IfaceVal:
			if a.null {
				return b.null
			}
		case *SliceVal:
			if a.null {
				return mkBool(b.reg == nil)
			}
		}
	case *IfaceVal:
		switch b := r.(type) {
		case *PtrVal:
			if b.null {
				return a.null
			}
		case *IfaceVal:
			return env.e.valuesEqual(env.state(), a, b)
		}
	case *SliceVal:
		if b, ok := r.(*PtrVal); ok && b.null {
			return mkBool(a.reg == nil)
		}
		if b, ok := r.(*SliceVal); ok {
			if a.reg == nil || b.reg == nil {
				return mkBool(a.reg == b.reg)
			}
			ar, ap, ao := env.e.resolveWindow(a.reg, a.path)
			br, bp, bo := env.e.resolveWindow(b.reg, b.path)
			if ar != br || fmt.Sprint(ap) != fmt.Sprint(bp) {
				return tFalse
			}
			return mkAnd(mkEq(mkAdd(a.off, mkInt64(ao)), mkAdd(b.off, mkInt64(bo))), mkEq(a.length, b.length))
		}
	case *AggVal:
		if b, ok := r.(*AggVal); ok {
			return env.e.valuesEqual(env.state(), a, b)
		}
	}
	env.fail("unsupported comparison in %s (%T vs %T)", exprString(n), l, r)
	return nil
}

func (env *SpecEnv) selector(n *ast.SelectorExpr) Value {
	base := env.eval(n.X)
	switch b := base.(type) {
	case *AggVal:
		st, ok := underlying(b.typ).(*types.Struct)
		if ok {
			for i := 0; i < st.NumFields(); i++ {
				if st.Field(i).Name() == n.Sel.Name {
					return b.elems[i]
				}
			}
		}
		env.fail("no field %s", n.Sel.Name)
	}
	r := env.asRef(base, n)
	st, ok := underlying(r.typ).(*types.Struct)
	if !ok {
		env.fail("selector %s on non-struct %s", n.Sel.Name, r.typ)
	}
	for i := 0; i < st.NumFields(); i++ {
		if st.Field(i).Name() == n.Sel.Name {
			return &RefVal{reg: r.reg, path: extend(r.path, i), typ: st.Field(i).Type()}
		}
	}
	env.fail("no field %s in %s", n.Sel.Name, r.typ)
	return nil
}

func (env *SpecEnv) index(n *ast.IndexExpr) Value {
	base := env.eval(n.X)
	idx := env.term(n.Index)
	if rv, ok := base.(*RefVal); ok {
		if _, isSl := underlying(rv.typ).(*types.Slice); isSl {
			base = env.loadRef(rv)
		}
	}
	switch b := base.(type) {
	case *SliceVal:
		if b.reg == nil {
			env.fail("index into nil slice in %s", exprString(n))
		}
		if !isScalarType(b.elem) {
			abs := mkAdd(b.off, idx)
			if !abs.IsConst() {
				env.fail("symbolic index into slice of aggregates in %s", exprString(n))
			}
			return &RefVal{reg: b.reg, path: extend(b.path, int(abs.Val.Int64())), typ: b.elem}
		}
		return env.e.sliceElem(env.state(), b, idx)
	case *AggVal:
		if !idx.IsConst() {
			env.fail("symbolic index into array value")
		}
		return b.elems[idx.Val.Int64()]
	}
	r := env.asRef(base, n)
	at, ok := underlying(r.typ).(*types.Array)
	if !ok {
		env.fail("index on non-array %s in %s", r.typ, exprString(n))
	}
	if idx.IsConst() {
		i := idx.Val.Int64()
		if i < 0 || i >= at.Len() {
			env.fail("constant index out of range in %s", exprString(n))
		}
		return &RefVal{reg: r.reg, path: extend(r.path, int(i)), typ: at.Elem()}
	}
	if !isScalarType(at.Elem()) {
		env.fail("symbolic index into array of aggregates in %s", exprString(n))
	}
	return env.e.load(env.state(), &PtrVal{reg: r.reg, path: r.path, sym: idx}, nil)
}

func (env *SpecEnv) sliceOf(v Value, x ast.Expr) *SliceVal {
	switch b := v.(type) {
	case *SliceVal:
		if b.reg != nil && len(env.state().subst) > 0 {
			return substValue(b, env.state().subst).(*SliceVal)
		}
		return b
	case *RefVal:
		switch u := underlying(b.typ).(type) {
		case *types.Slice:
			return env.loadRef(b).(*SliceVal)
		case *types.Array:
			n := mkInt64(u.Len())
			r, path, off := env.e.resolveWindow(b.reg, b.path)
			return &SliceVal{reg: r, path: path, off: mkInt64(off), length: n, capacity: n, elem: u.Elem(), backingN: env.e.backingLen(r, path)}
		case *types.Pointer:
			return env.sliceOf(env.deref(b, x), x)
		}
	case *PtrVal:
		return env.sliceOf(env.deref(b, x), x)
	case *StrVal:
		if b.sym != nil {
			return b.sym
		}
		if b.known {
			return env.e.bytesOfString(env.state(), b.s, types.Typ[types.Uint8])
		}
	}
	env.fail("expected slice/array in %s, got %T", exprString(x), v)
	return nil
}

func (env *SpecEnv) sliceExpr(n *ast.SliceExpr) Value {
	s := env.sliceOf(env.eval(n.X), n.X)
	lo := mkInt64(0)
	hi := s.length
	if n.Low != nil {
		lo = env.term(n.Low)
	}
	if n.High != nil {
		hi = env.term(n.High)
	}
	return &SliceVal{reg: s.reg, path: s.path, off: mkAdd(s.off, lo), length: mkSub(hi, lo), capacity: mkSub(s.capacity, lo), elem: s.elem, backingN: s.backingN}
}

// bytesOf returns the element terms of a constant-length slice/array.
func (env *SpecEnv) elemsOf(v Value, x ast.Expr) []*Term {
	if a, ok := v.(*AggVal); ok {
		out := make([]*Term, len(a.elems))
		for i, el := range a.elems {
			out[i] = el.(*Term)
		}
		return out
	}
	s := env.sliceOf(v, x)
	if !s.length.IsConst() {
		env.fail("%s needs a constant length (have %s)", exprString(x), s.length.Key())
	}
	n := s.length.Val.Int64()
	out := make([]*Term, n)
	for i := int64(0); i < n; i++ {
		out[i] = env.state().sub(env.e.sliceElem(env.state(), s, mkInt64(i)))
	}
	return out
}

func os2ipTerms(bs []*Term) *Term {
	// the value of all n bytes of be(n, x), in order, is x
	if len(bs) >= 2 {
		if b0 := bs[0]; b0.Op == "select" && b0.Args[0].Op == "app" && b0.Args[0].Name == "be" && b0.Args[0].Val.Int64() == int64(len(bs)) {
			all := true
			for i, b := range bs {
				if b.Op != "select" || b.Args[0].Key() != b0.Args[0].Key() || !b.Args[1].IsConst() || b.Args[1].Val.Int64() != int64(i) {
					all = false
					break
				}
			}
			if all {
				return b0.Args[0].Args[0]
			}
		}
	}
	r := mkInt64(0)
	for _, b := range bs {
		r = mkAdd(mkScale(r, big.NewInt(256)), b)
	}
	return r
}

func (env *SpecEnv) call(n *ast.CallExpr) Value {
	fn, ok := n.Fun.(*ast.Ident)
	if !ok {
		env.fail("unsupported call %s", exprString(n))
	}
	args := n.Args
	need := func(k int) {
		if len(args) != k {
			env.fail("%s expects %d arguments", fn.Name, k)
		}
	}
	switch fn.Name {
	case "old":
		need(1)
		if env.old == nil {
			return env.eval(args[0])
		}
		save := env.inOld
		env.inOld = true
		v := env.eval(args[0])
		// force loads in the old state (whole objects are loaded as aggregate values)
		if rv, ok := v.(*RefVal); ok {
			v = env.loadRef(rv)
		}
		env.inOld = save
		return v
	case "fact":
		need(1)
		return env.boolTerm(args[0])
	case "implies":
		need(2)
		g := env.state().sub(env.boolTerm(args[0]))
		if knownFalse(env.state(), g) {
			return tTrue
		}
		if os.Getenv("VCGO_DEBUG_IMPL") != "" {
			fmt.Fprintf(os.Stderr, "[implies] guard not known false: %s\n", trunc(g.Key(), 300))
			for _, a := range g.Args {
				fmt.Fprintf(os.Stderr, "    conj %s\n", trunc(a.Key(), 200))
			}
			for _, h := range env.state().hyps {
				fmt.Fprintf(os.Stderr, "    hyp %s\n", trunc(h.Key(), 200))
			}
		}
		return mkImplies(g, env.boolTerm(args[1]))
	case "iff":
		need(2)
		return mkIff(env.boolTerm(args[0]), env.boolTerm(args[1]))
	case "ite":
		need(3)
		c := env.boolTerm(args[0])
		a, b := env.term(args[1]), env.term(args[2])
		if a.Sort != b.Sort {
			if a.Sort == SInt && modulusOf(b.Sort) != nil {
				a = mkToRing(b.Sort, a)
			} else if b.Sort == SInt && modulusOf(a.Sort) != nil {
				b = mkToRing(a.Sort, b)
			}
		}
		return mkIte(c, a, b)
	case "len":
		need(1)
		v := env.eval(args[0])
		if sv, ok := v.(*StrVal); ok && sv.known {
			return mkInt64(int64(len(sv.s)))
		}
		return env.sliceOf(v, args[0]).length
	case "cap":
		need(1)
		return env.sliceOf(env.eval(args[0]), args[0]).capacity
	case "e4":
		need(1)
		els := env.elemsOf(env.eval(args[0]), args[0])
		if len(els) < 4 {
			env.fail("e4 needs 4 limbs")
		}
		r := mkInt64(0)
		for i := 3; i >= 0; i-- {
			r = mkAdd(mkScale(r, bigW), els[i])
		}
		return r
	case "evalw":
		// little-endian evaluation of all limbs
		need(1)
		els := env.elemsOf(env.eval(args[0]), args[0])
		r := mkInt64(0)
		for i := len(els) - 1; i >= 0; i-- {
			r = mkAdd(mkScale(r, bigW), els[i])
		}
		return r
	case "os2ip":
		need(1)
		return os2ipTerms(env.elemsOf(env.eval(args[0]), args[0]))
	case "os2ipv":
		need(1)
		return env.os2ipv(env.sliceOf(env.eval(args[0]), args[0]))
	case "samebytes":
		// samebytes(x, y): the two byte slices (constant lengths in the current variant) have the same length and the
		// same contents, position by position -- literally the engine-level model of bytes.Equal /
		// subtle.ConstantTimeCompare used at call sites (builtins.go), so that the contract in spec/deps.spec restates it
		need(2)
		a, b := env.sliceOf(env.eval(args[0]), args[0]), env.sliceOf(env.eval(args[1]), args[1])
		if a.reg == nil || b.reg == nil || !a.length.IsConst() || !b.length.IsConst() {
			env.fail("samebytes needs slices of constant length in this variant")
		}
		if a.length.Val.Cmp(b.length.Val) != 0 {
			return tFalse
		}
		var cs []*Term
		for i := int64(0); i < a.length.Val.Int64(); i++ {
			cs = append(cs, mkEq(env.e.sliceElem(env.state(), a, mkInt64(i)), env.e.sliceElem(env.state(), b, mkInt64(i))))
		}
		return mkAnd(cs...)
	case "fp":
		need(1)
		return mkToRing(SFp, env.term(args[0]))
	case "fn":
		need(1)
		return mkToRing(SFn, env.term(args[0]))
	case "lift":
		need(1)
		return mkLift(env.term(args[0]))
	case "fmP":
		need(1)
		return mkFromMont(SFp, env.term(args[0]))
	case "fmN":
		need(1)
		return mkFromMont(SFn, env.term(args[0]))
	case "val":
		need(1)
		return env.valOf(env.eval(args[0]), args[0])
	case "pow":
		need(2)
		ex := env.term(args[1])
		if !ex.IsConst() {
			return mkApp("fpowsym", env.term(args[0]).Sort, env.term(args[0]), ex)
		}
		return mkPow(env.term(args[0]), ex.Val)
	case "pow2":
		need(1)
		ex := env.term(args[0])
		if ex.IsConst() {
			return mkInt(new(big.Int).Lsh(big1, uint(ex.Val.Uint64())))
		}
		return mkApp("pow2", SInt, ex)
	case "inv":
		need(1)
		a := env.term(args[0])
		if modulusOf(a.Sort) == nil {
			env.fail("inv(%s): the argument is an integer; write inv(fp(..)) or inv(fn(..))", exprString(args[0]))
		}
		return mkPow(a, new(big.Int).Sub(modulusOf(a.Sort), big2))
	case "unchanged":
		var cs []*Term
		for _, a := range args {
			cs = append(cs, env.unchanged(a))
		}
		return mkAnd(cs...)
	case "zero":
		need(1)
		var cs []*Term
		for _, t := range env.leafTerms(env.eval(args[0]), args[0]) {
			if t.Sort == SBool {
				cs = append(cs, mkNot(t))
			} else {
				cs = append(cs, mkEq(t, mkInt64(0)))
			}
		}
		return mkAnd(cs...)
	case "same":
		need(2)
		a := env.leafTerms(env.eval(args[0]), args[0])
		b := env.leafTerms(env.eval(args[1]), args[1])
		if len(a) != len(b) {
			env.fail("same: shape mismatch in %s", exprString(n))
		}
		var cs []*Term
		for i := range a {
			cs = append(cs, mkEq(a[i], b[i]))
		}
		return mkAnd(cs...)
	case "b2i":
		need(1)
		return mkIte(env.boolTerm(args[0]), mkInt64(1), mkInt64(0))
	case "isnil":
		need(1)
		v := env.eval(args[0])
		if rv, ok := v.(*RefVal); ok {
			v = env.loadRef(rv)
		}
		switch p := v.(type) {
		case *PtrVal:
			return mkBool(p.null)
		case *IfaceVal:
			return p.null
		case *SliceVal:
			return mkBool(p.reg == nil)
		}
		env.fail("isnil on %T", v)
	case "fresh":
		need(1)
		v := env.eval(args[0])
		if rv, ok := v.(*RefVal); ok {
			v = env.loadRef(rv)
		}
		switch p := v.(type) {
		case *PtrVal:
			return mkBool(!p.null && p.reg.fresh && env.freshSince(p.reg))
		case *SliceVal:
			return mkBool(p.reg != nil && p.reg.fresh && env.freshSince(p.reg))
		}
		env.fail("fresh on %T", v)
	case "errIs":
		need(2)
		v := env.eval(args[0])
		iv, ok := v.(*IfaceVal)
		if !ok {
			env.fail("errIs on non-interface")
		}
		name := args[1].(*ast.Ident).Name
		if iv.null.IsConst() && iv.null.Val.Sign() != 0 {
			return tFalse
		}
		// a package-level error variable: compare with the value it holds
		if env.pkg != nil {
			if g := env.e.findGlobal(env.pkg.Path(), name); g != nil {
				r := env.e.globalRegion(g)
				if gv, ok := env.state().mem.cells[pathKey(r.id, nil)].(*IfaceVal); ok && gv.tag != "" {
					if iv.tag != "" {
						return mkAnd(mkNot(iv.null), mkBool(iv.tag == gv.tag || iv.tag == name))
					}
					if tt := ifaceTagTerm(iv); tt != nil {
						return mkAnd(mkNot(iv.null), mkOr(mkEq(tt, mkApp("errtag$"+gv.tag, SInt)), mkEq(tt, mkApp("errtag$"+name, SInt))))
					}
				}
			}
		}
		if iv.tag != "" {
			return mkAnd(mkNot(iv.null), mkBool(iv.tag == name))
		}
		tt := ifaceTagTerm(iv)
		if tt == nil {
			env.fail("errIs on untagged error (null=%s dyn=%v obj=%q)", iv.null.Key(), iv.dyn, iv.obj)
		}
		return mkAnd(mkNot(iv.null), mkEq(tt, mkApp("errtag$"+name, SInt)))
	case "padd":
		need(2)
		return mkPadd(env.term(args[0]), env.term(args[1]))
	case "pneg":
		need(1)
		return mkPneg(env.term(args[0]))
	case "smul":
		need(2)
		return mkSmul(env.term(args[0]), env.term(args[1]))
	}
	if h, ok := specFuncs[fn.Name]; ok {
		return h(env, n)
	}
	if d, ok := env.e.db.Defines[fn.Name]; ok {
		if len(args) != len(d.Params) {
			env.fail("%s expects %d arguments", fn.Name, len(d.Params))
		}
		sub := &SpecEnv{e: env.e, st: env.st, old: env.old, vars: map[string]Value{}, fnName: "define " + d.Name, pkg: env.pkg, inOld: env.inOld}
		for i, p := range d.Params {
			t := env.term(args[i])
			if t.Sort != p.Sort {
				if t.Sort == SInt && modulusOf(p.Sort) != nil {
					t = mkToRing(p.Sort, t)
				} else {
					env.fail("argument %d of %s has sort %s, want %s", i, fn.Name, t.Sort, p.Sort)
				}
			}
			sub.vars[p.Name] = t
		}
		return sub.eval(d.Body)
	}
	// lemma-style uninterpreted spec function: all args are terms
	if sig, ok := ufSigs[fn.Name]; ok {
		if len(args) != len(sig.args) {
			env.fail("%s expects %d arguments", fn.Name, len(sig.args))
		}
		ts := make([]*Term, len(args))
		for i, a := range args {
			ts[i] = env.term(a)
			if ts[i].Sort != sig.args[i] {
				if ts[i].Sort == SInt && modulusOf(sig.args[i]) != nil {
					ts[i] = mkToRing(sig.args[i], ts[i])
				} else {
					env.fail("argument %d of %s has sort %s, want %s", i, fn.Name, ts[i].Sort, sig.args[i])
				}
			}
		}
		if sig.lo != nil {
			t := mkApp(fn.Name, sig.res, ts...)
			t.Lo, t.Hi = sig.lo, sig.hi
			return t
		}
		if fn.Name == "aff" {
			if k := env.e.affConst(ts[0], ts[1]); k != nil {
				return k
			}
		}
		return liftApp(fn.Name, sig.res, ts...)
	}
	env.fail("unknown spec function %s", fn.Name)
	return nil
}

type ufSig struct {
	args   []Sort
	res    Sort
	lo, hi *big.Int
}

// uninterpreted spec functions (meaning given by lemmas / documentation in spec/)
var ufSigs = map[string]ufSig{
	"pt":      {[]Sort{SFp, SFp, SFp}, SPt, nil, nil}, // projective (X:Y:Z) -> abstract point
	"aff":     {[]Sort{SFp, SFp}, SPt, nil, nil},      // affine (x,y) -> abstract point
	"affx":    {[]Sort{SPt}, SFp, nil, nil},
	"affy":    {[]Sort{SPt}, SFp, nil, nil},
	"oncurve": {[]Sort{SFp, SFp, SFp}, SBool, nil, nil},
	"issq":    {[]Sort{SFp}, SBool, nil, nil},
	"fsqrt":   {[]Sort{SFp}, SFp, nil, nil},
	"isO":     {[]Sort{SPt}, SBool, nil, nil},
	"ptxy":    {[]Sort{SFp, SInt}, SPt, nil, nil}, // the curve point with the given x and y-parity (SEC 1 2.3.4 decompression)
}

var specFuncs = map[string]func(env *SpecEnv, n *ast.CallExpr) Value{}

// liftApp builds an uninterpreted application, distributing over ite-valued arguments.
func liftApp(name string, s Sort, args ...*Term) *Term {
	for i, a := range args {
		if a.Op == "ite" && (isRing(a.Sort) || a.Sort == SPt) {
			c := a.Args[0]
			l := make([]*Term, len(args))
			r := make([]*Term, len(args))
			for j, b := range args {
				if j == i {
					l[j], r[j] = a.Args[1], a.Args[2]
				} else {
					l[j], r[j] = restrict(b, c, true), restrict(b, c, false)
				}
			}
			return mkIte(c, liftApp(name, s, l...), liftApp(name, s, r...))
		}
	}
	return mkApp(name, s, args...)
}

// absOfCoords: abstract point of projective (or affine, z = 1) coordinates; verified constant table
// entries become multiples of G.
func (env *SpecEnv) absOfCoords(x, y, z *Term) *Term {
	if z.IsConst() && z.Val.Cmp(big1) == 0 {
		if k := env.e.affConst(x, y); k != nil {
			return k
		}
		return env.state().sub(liftApp("aff", SPt, x, y))
	}
	return env.state().sub(liftApp("pt", SPt, x, y, z))
}

func (env *SpecEnv) pointCoords(x ast.Expr) (*Term, *Term, *Term) {
	r := env.asRef(env.eval(x), x)
	st, ok := underlying(r.typ).(*types.Struct)
	if !ok {
		env.fail("abs/onc: %s is not a struct", exprString(x))
	}
	get := func(name string) *Term {
		for i := 0; i < st.NumFields(); i++ {
			if st.Field(i).Name() == name {
				return env.valOf(&RefVal{reg: r.reg, path: extend(r.path, i), typ: st.Field(i).Type()}, x).(*Term)
			}
		}
		env.fail("abs/onc: no field %s", name)
		return nil
	}
	hasZ := false
	for i := 0; i < st.NumFields(); i++ {
		if st.Field(i).Name() == "z" {
			hasZ = true
		}
	}
	if !hasZ {
		return get("x"), get("y"), mkRingConst(SFp, big1)
	}
	return get("x"), get("y"), get("z")
}

// bip66: the BIP-66 grammar as a predicate over a byte slice (written from the BIP text).
func (env *SpecEnv) bip66(x ast.Expr) *Term {
	s := env.sliceOf(env.eval(x), x)
	n := s.length
	at := func(i *Term) *Term { return env.state().sub(env.e.sliceElem(env.state(), s, i)) }
	c := func(v int64) *Term { return mkInt64(v) }
	lenR := at(c(3))
	// everything that indexes is guarded by the preceding length facts (short-circuit conjunction)
	sizeOK := mkAnd(mkLe(c(9), n), mkLe(n, c(73)))
	guard1 := mkAnd(sizeOK, mkLt(mkAdd(c(5), lenR), n))
	lenS := at(mkAdd(c(5), lenR))
	minimal := func(off, l *Term) *Term {
		first := at(off)
		second := at(mkAdd(off, c(1)))
		return mkAnd(mkLt(first, c(128)), mkNot(mkAnd(mkLt(c(1), l), mkEq(first, c(0)), mkLt(second, c(128)))))
	}
	body := mkAnd(
		mkEq(at(c(0)), c(0x30)),
		mkEq(at(c(1)), mkSub(n, c(3))),
		mkEq(at(c(2)), c(2)),
		mkLe(c(1), lenR),
		mkEq(at(mkAdd(c(4), lenR)), c(2)),
		mkLe(c(1), lenS),
		mkEq(mkAdd(mkAdd(lenR, lenS), c(7)), n),
		minimal(c(4), lenR),
		minimal(mkAdd(c(6), lenR), lenS),
	)
	return mkAnd(guard1, body)
}

func init() {
	// elemval(vec, i): val of the object element i of a slice-of-pointers parameter points to
	specFuncs["elemval"] = func(env *SpecEnv, n *ast.CallExpr) Value {
		sl := env.sliceOf(env.eval(n.Args[0]), n.Args[0])
		return env.elemVal(sl, env.term(n.Args[1]), n)
	}
	// vsum(vec, k) / vprod(vec, k): sum / product of the first k elements (recursively specified; each
	// evaluation unfolds one step:  f(0) = unit,  k >= 1 ==> f(k) = f(k-1) op elemval(k-1))
	for _, nm := range []string{"vsum", "vprod"} {
		nm := nm
		specFuncs[nm] = func(env *SpecEnv, n *ast.CallExpr) Value {
			sl := env.sliceOf(env.eval(n.Args[0]), n.Args[0])
			k := env.state().sub(env.term(n.Args[1]))
			if sl.reg == nil {
				env.fail("%s of nil slice", nm)
			}
			pt, ok := underlying(sl.elem).(*types.Pointer)
			if !ok {
				env.fail("%s: not a slice of pointers", nm)
			}
			so := SFn
			if namedOf(pt).Obj().Name() == "Element" {
				so = SFp
			}
			unit := int64(0)
			if nm == "vprod" {
				unit = 1
			}
			f := func(a *Term) *Term {
				if a.IsConst() && a.Val.Sign() == 0 {
					return mkRingConst(so, big.NewInt(unit))
				}
				return mkApp(fmt.Sprintf("%s$%d", nm, sl.reg.id), so, a)
			}
			if k.IsConst() && k.Val.Sign() == 0 {
				return f(k)
			}
			km1 := mkSub(k, mkInt64(1))
			var step *Term
			if nm == "vsum" {
				step = mkAdd(f(km1), env.elemVal(sl, km1, n))
			} else {
				step = mkMul(f(km1), env.elemVal(sl, km1, n))
			}
			st := env.state()
			st.assume(mkImplies(mkLe(mkInt64(1), k), mkEq(f(k), step)))
			st.assume(mkImplies(mkEq(k, mkInt64(0)), mkEq(f(k), mkRingConst(so, big.NewInt(unit)))))
			return f(k)
		}
	}
	// hashsize(h): digest size of the hash selected by an ECDSAOptions.Hash field (0 means SHA-256)
	specFuncs["hashsize"] = func(env *SpecEnv, n *ast.CallExpr) Value {
		h := env.term(n.Args[0])
		sizes := map[int64]int64{0: 32, 1: 16, 2: 16, 3: 20, 4: 28, 5: 32, 6: 48, 7: 64, 8: 36, 9: 20, 10: 28, 11: 32, 12: 48, 13: 64, 14: 28, 15: 32, 16: 32, 17: 32, 18: 48, 19: 64}
		res := mkInt64(-1)
		for k := int64(19); k >= 0; k-- {
			res = mkIte(mkEq(h, mkInt64(k)), mkInt64(sizes[k]), res)
		}
		return res
	}
	// atom(t): the same value as t, but kept as one opaque symbol (with the defining equation as a
	// hypothesis) so that polynomial operations on it are not expanded
	specFuncs["atom"] = func(env *SpecEnv, n *ast.CallExpr) Value {
		t := env.state().sub(env.term(n.Args[0]))
		if t.Op == "var" || t.IsConst() || (t.Op == "app" && t.Name != "toring") {
			return t
		}
		v := mkVar("atom$"+shortKey(t.Key()), t.Sort)
		if lo, hi := rangeOf(t); t.Sort == SInt && lo != nil {
			v = mkIntVarR("atom$"+shortKey(t.Key()), lo, hi)
		}
		env.state().assume(mkEq(v, t))
		return v
	}
	// slift(x): signed representative of a residue mod N in (-N/2, N/2]
	specFuncs["slift"] = func(env *SpecEnv, n *ast.CallExpr) Value {
		t := env.term(n.Args[0])
		l := mkLift(t)
		m := modulusOf(t.Sort)
		half := new(big.Int).Rsh(m, 1)
		return mkIte(mkLt(mkInt(half), l), mkSub(l, mkInt(m)), l)
	}
	// tblok(tbl): projective table invariant -- entry j is on the curve and represents (j+1)*T, T = entry 0
	specFuncs["tblok"] = func(env *SpecEnv, n *ast.CallExpr) Value {
		r := env.asRef(env.eval(n.Args[0]), n.Args[0])
		at := underlying(r.typ).(*types.Array)
		d := env.e.db.Defines["oncurve"]
		var cs []*Term
		var t0 *Term
		for j := int64(0); j < at.Len(); j++ {
			ex := &ast.IndexExpr{X: n.Args[0], Index: &ast.BasicLit{Kind: token.INT, Value: fmt.Sprint(j)}}
			x, y, z := env.pointCoords(ex)
			sub := &SpecEnv{e: env.e, st: env.st, old: env.old, vars: map[string]Value{"X": x, "Y": y, "Z": z}, fnName: "tblok", inOld: env.inOld}
			cs = append(cs, sub.boolTerm(d.Body))
			p := env.absOfCoords(x, y, z)
			if j == 0 {
				t0 = p
			} else {
				cs = append(cs, mkEq(p, mkSmul(mkRingConst(SFn, big.NewInt(j+1)), t0)))
			}
		}
		return mkAnd(cs...)
	}
	// tsel{x,y,z}(tbl, idx): coordinate selected by a constant-time table scan (0 -> identity coordinates)
	for ci, cname := range []string{"x", "y", "z"} {
		ci, cname := ci, cname
		specFuncs["tsel"+cname] = func(env *SpecEnv, n *ast.CallExpr) Value {
			r := env.asRef(env.eval(n.Args[0]), n.Args[0])
			at := underlying(r.typ).(*types.Array)
			idx := env.term(n.Args[1])
			dflt := []int64{0, 1, 0}[ci]
			if len(n.Args) > 2 {
				dflt = 0
			}
			res := mkRingConst(SFp, big.NewInt(dflt))
			for j := at.Len() - 1; j >= 0; j-- {
				ex := &ast.IndexExpr{X: n.Args[0], Index: &ast.BasicLit{Kind: token.INT, Value: fmt.Sprint(j)}}
				x, y, z := env.pointCoords(ex)
				c := []*Term{x, y, z}[ci]
				res = mkIte(mkEq(idx, mkInt64(j+1)), c, res)
			}
			return res
		}
	}
	specFuncs["bip66"] = func(env *SpecEnv, n *ast.CallExpr) Value { return env.bip66(n.Args[0]) }
	// abs(p): abstract point represented by a *Point (or affinePoint with z = 1)
	specFuncs["abs"] = func(env *SpecEnv, n *ast.CallExpr) Value {
		x, y, z := env.pointCoords(n.Args[0])
		return env.absOfCoords(x, y, z)
	}
	// onc(p): the coordinates of p satisfy the projective curve equation
	specFuncs["onc"] = func(env *SpecEnv, n *ast.CallExpr) Value {
		x, y, z := env.pointCoords(n.Args[0])
		d := env.e.db.Defines["oncurve"]
		sub := &SpecEnv{e: env.e, st: env.st, old: env.old, vars: map[string]Value{"X": x, "Y": y, "Z": z}, fnName: "onc", inOld: env.inOld}
		return sub.eval(d.Body)
	}
}

func (env *SpecEnv) freshSince(r *Region) bool {
	if env.old == nil {
		return true
	}
	return r.created > env.old.epoch
}

// mkFromMont: x * R^-1 in the residue ring, as an opaque atom over the integer argument
// (constant arguments are evaluated).
func mkFromMont(s Sort, x *Term) *Term {
	m := modulusOf(s)
	if x.IsConst() {
		rinv := new(big.Int).ModInverse(bigR, m)
		return mkRingConst(s, new(big.Int).Mul(x.Val, rinv))
	}
	return lift1(x, func(x *Term) *Term {
		if x.IsConst() {
			return mkFromMont(s, x)
		}
		return &Term{Op: "app", Sort: s, Name: "fm", Args: []*Term{x}}
	})
}

func init() {
	appRebuilders["fm"] = func(t *Term, args []*Term) *Term { return mkFromMont(t.Sort, args[0]) }
}

// valOf: abstraction function of field elements and scalars.
func (env *SpecEnv) valOf(v Value, x ast.Expr) Value {
	r := env.asRef(v, x)
	nt, ok := r.typ.(*types.Named)
	if !ok {
		env.fail("val of unnamed type %s", r.typ)
	}
	var s Sort
	switch nt.Obj().Pkg().Name() + "." + nt.Obj().Name() {
	case "field.Element":
		s = SFp
	case "secp256k1.Scalar":
		s = SFn
	default:
		env.fail("val: unsupported type %s", nt)
	}
	st := underlying(r.typ).(*types.Struct)
	mi := -1
	for i := 0; i < st.NumFields(); i++ {
		if st.Field(i).Name() == "m" {
			mi = i
		}
	}
	var limbs [4]*Term
	for i := 0; i < 4; i++ {
		limbs[i] = env.state().sub(env.e.loadPath(env.state(), r.reg, extend(r.path, mi, i), types.Typ[types.Uint64]).(*Term))
	}
	ev := mkInt64(0)
	for i := 3; i >= 0; i-- {
		ev = mkAdd(mkScale(ev, bigW), limbs[i])
	}
	t := mkFromMont(s, ev)
	return env.state().sub(t)
}

func (env *SpecEnv) leafTerms(v Value, x ast.Expr) []*Term {
	var out []*Term
	var rec func(v Value)
	rec = func(v Value) {
		switch t := v.(type) {
		case *Term:
			out = append(out, env.state().sub(t))
		case *AggVal:
			for _, el := range t.elems {
				rec(el)
			}
		case *RefVal:
			rec(env.loadRef(t))
		case *PtrVal:
			rec(env.loadRef(env.deref(t, x)))
		case *SliceVal:
			for _, el := range env.elemsOf(t, x) {
				out = append(out, el)
			}
		default:
			env.fail("leafTerms: unsupported %T in %s", v, exprString(x))
		}
	}
	rec(v)
	return out
}

// unchanged(lv): every scalar leaf under lv has the same value as in the old state.
func (env *SpecEnv) unchanged(x ast.Expr) *Term {
	save := env.inOld
	env.inOld = false
	cur := env.leafTerms(env.eval(x), x)
	env.inOld = true
	old := env.leafTerms(env.eval(x), x)
	env.inOld = save
	if len(cur) != len(old) {
		env.fail("unchanged: shape changed for %s", exprString(x))
	}
	var cs []*Term
	for i := range cur {
		cs = append(cs, mkEq(cur[i], old[i]))
	}
	return mkAnd(cs...)
}

// lvalueCells enumerates the (region,path,type) scalar leaves denoted by a modifies item.
type cellRef struct {
	reg  *Region
	path []int
	typ  types.Type
}

// ghostStateItem: `rdstate(x)` in a modifies clause names the abstract state of the stream / hash object x.
func (env *SpecEnv) ghostStateItem(x ast.Expr) (string, bool) {
	c, ok := x.(*ast.CallExpr)
	if !ok {
		return "", false
	}
	if id, ok := c.Fun.(*ast.Ident); !ok || id.Name != "rdstate" || len(c.Args) != 1 {
		return "", false
	}
	v := env.eval(c.Args[0])
	if iv, isI := v.(*IfaceVal); isI && iv.null != nil && iv.null.IsConst() && iv.null.Val.Sign() != 0 {
		return "", true // nil reader: nothing to modify
	}
	id, ok := env.e.objID(v)
	if !ok {
		if iv, isI := v.(*IfaceVal); isI && iv.dyn != nil {
			if _, isPtr := underlying(iv.dyn).(*types.Pointer); !isPtr {
				return "", true // a value of a stateless type: nothing to modify
			}
		}
		env.fail("modifies rdstate(%s): not a stream / hash object", exprString(c.Args[0]))
	}
	return id, true
}

func (env *SpecEnv) lvalueCells(x ast.Expr) (cells []cellRef, dyn []*SliceVal) {
	if _, isGhost := env.ghostStateItem(x); isGhost {
		return nil, nil
	}
	v := env.eval(x)
	var rec func(v Value)
	rec = func(v Value) {
		switch t := v.(type) {
		case *RefVal:
			if _, isPtr := underlying(t.typ).(*types.Pointer); isPtr {
				rec(env.deref(t, x))
				return
			}
			if _, isSl := underlying(t.typ).(*types.Slice); isSl {
				// the slice header cell itself
				cells = append(cells, cellRef{t.reg, t.path, t.typ})
				return
			}
			reg, path := t.reg, t.path
			if w, ok := env.e.windows[reg.id]; ok {
				// translate window coordinates
				leafPaths(t.typ, nil, func(p []int, lt types.Type) {
					full := extend(path, p...)
					pp := extend(w.path, full[0]+int(w.off))
					pp = append(pp, full[1:]...)
					cells = append(cells, cellRef{w.parent, pp, lt})
				})
				return
			}
			leafPaths(t.typ, nil, func(p []int, lt types.Type) {
				cells = append(cells, cellRef{reg, extend(path, p...), lt})
			})
		case *PtrVal:
			if t.null {
				return
			}
			rec(env.deref(t, x))
		case *SliceVal:
			if t.reg == nil {
				return
			}
			if t.reg.dyn || !t.off.IsConst() || !t.length.IsConst() {
				dyn = append(dyn, t)
				return
			}
			off, n := t.off.Val.Int64(), t.length.Val.Int64()
			for i := off; i < off+n; i++ {
				leafPaths(t.elem, nil, func(p []int, lt types.Type) {
					cells = append(cells, cellRef{t.reg, append(extend(t.path, int(i)), p...), lt})
				})
			}
		default:
			env.fail("modifies: unsupported item %s (%T)", exprString(x), v)
		}
	}
	rec(v)
	return
}

func (env *SpecEnv) elemVal(sl *SliceVal, i *Term, n ast.Expr) *Term {
	st := env.state()
	if sl.reg == nil || sl.reg.family == nil {
		env.fail("elemval: not a slice-of-pointers parameter")
	}
	idx := st.sub(mkAdd(sl.off, i))
	fam := env.e.familyElem(st, sl.reg, idx)
	fv := env.valOf(fam, n).(*Term)
	if sl.reg.aliasPtr != nil {
		av := env.valOf(sl.reg.aliasPtr, n).(*Term)
		return mkIte(mkEq(idx, sl.reg.aliasIdx), av, fv)
	}
	return fv
}
