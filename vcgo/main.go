package main

import (
	"encoding/json"
	"flag"
	"fmt"
	"go/types"
	"os"
	"os/exec"
	"path/filepath"
	"runtime"
	"runtime/debug"
	"runtime/pprof"
	"sort"
	"strconv"
	"strings"
	"sync"
	"sync/atomic"
	"time"

	"golang.org/x/tools/go/packages"
	"golang.org/x/tools/go/ssa"
	"golang.org/x/tools/go/ssa/ssautil"
)

const modPath = "gitlab.com/yawning/secp256k1-voi"

type loadResult struct {
	prog  *ssa.Program
	pkgs  map[string]*ssa.Package
	order []*ssa.Package
	raw   []*packages.Package
}

func loadRepo(repo string, tags string) (*loadResult, error) {
	cfg := &packages.Config{Mode: packages.LoadAllSyntax, Dir: repo, BuildFlags: []string{"-tags=" + tags},
		Env: append(os.Environ(), "GOFLAGS=-mod=mod", "GOPROXY=off", "GOSUMDB=off", "GOTOOLCHAIN=local")}
	pkgs, err := packages.Load(cfg, "./...")
	if err != nil {
		return nil, err
	}
	var errs []string
	packages.Visit(pkgs, nil, func(p *packages.Package) {
		for _, e := range p.Errors {
			errs = append(errs, e.Error())
		}
	})
	if len(errs) > 0 {
		return nil, fmt.Errorf("load errors: %s", strings.Join(errs, "; "))
	}
	prog, spkgs := ssautil.AllPackages(pkgs, ssa.InstantiateGenerics|ssa.GlobalDebug)
	prog.Build()
	res := &loadResult{prog: prog, pkgs: map[string]*ssa.Package{}, raw: pkgs}
	// dependency order of repository packages
	seen := map[string]bool{}
	byPath := map[string]*packages.Package{}
	packages.Visit(pkgs, nil, func(p *packages.Package) { byPath[p.PkgPath] = p })
	var visit func(p *packages.Package)
	visit = func(p *packages.Package) {
		if seen[p.PkgPath] {
			return
		}
		seen[p.PkgPath] = true
		var imps []string
		for k := range p.Imports {
			imps = append(imps, k)
		}
		sort.Strings(imps)
		for _, k := range imps {
			visit(p.Imports[k])
		}
		if strings.HasPrefix(p.PkgPath, modPath) {
			if sp := prog.Package(p.Types); sp != nil {
				res.order = append(res.order, sp)
			}
		}
	}
	sort.Slice(pkgs, func(i, j int) bool { return pkgs[i].PkgPath < pkgs[j].PkgPath })
	for _, p := range pkgs {
		visit(p)
	}
	for _, sp := range spkgs {
		if sp != nil {
			res.pkgs[sp.Pkg.Path()] = sp
		}
	}
	for _, sp := range prog.AllPackages() {
		res.pkgs[sp.Pkg.Path()] = sp
	}
	return res, nil
}

func newEngine(lr *loadResult, db *SpecDB) *Engine {
	return &Engine{prog: lr.prog, pkgs: lr.pkgs, db: db, modPath: modPath, oblNames: map[string]int{}, globals: map[*ssa.Global]*Region{},
		inlined: map[string]bool{}, trusted: map[string]string{}, maxSteps: 3000000, embed: map[string][]byte{}, skipInit: map[string]bool{}}
}

// allFunctions enumerates functions (incl. methods and closures) of repository packages.
func allFunctions(lr *loadResult, extra ...string) map[string]*ssa.Function {
	out := map[string]*ssa.Function{}
	var add func(f *ssa.Function, pkg string)
	add = func(f *ssa.Function, pkg string) {
		if f == nil {
			return
		}
		key := pkg + "::" + f.RelString(f.Pkg.Pkg)
		if f.Parent() != nil {
			key = pkg + "::" + f.Name()
		}
		if _, ok := out[key]; ok {
			return
		}
		out[key] = f
		for _, af := range f.AnonFuncs {
			out[pkg+"::"+af.Name()] = af
			for _, aaf := range af.AnonFuncs {
				out[pkg+"::"+aaf.Name()] = aaf
			}
		}
	}
	pkgsToScan := append([]*ssa.Package{}, lr.order...)
	for _, x := range extra {
		if p, ok := lr.pkgs[x]; ok {
			pkgsToScan = append(pkgsToScan, p)
		}
	}
	for _, p := range pkgsToScan {
		pkg := p.Pkg.Path()
		for _, m := range p.Members {
			switch m := m.(type) {
			case *ssa.Function:
				add(m, pkg)
			case *ssa.Type:
				for _, t := range []interface {
					String() string
				}{} {
					_ = t
				}
				ms := lr.prog.MethodSets.MethodSet(m.Type())
				for i := 0; i < ms.Len(); i++ {
					if f := lr.prog.MethodValue(ms.At(i)); f != nil && f.Pkg == p {
						add(f, pkg)
					}
				}
				ms = lr.prog.MethodSets.MethodSet(typesPointer(m.Type()))
				for i := 0; i < ms.Len(); i++ {
					if f := lr.prog.MethodValue(ms.At(i)); f != nil && f.Pkg == p && f.Synthetic == "" {
						add(f, pkg)
					}
				}
			}
		}
	}
	return out
}

type runConfig struct {
	repo      string
	specDir   string
	props     []string
	funcs     string
	tier      string
	timeout   int
	tags      string
	verbose   bool
	seed      int64
	prop      string
	tables    bool
	propsFile string
}

type runResult struct {
	obls           []*Obligation
	errors         []string
	funcs          []string
	engine         *Engine
	wall           float64
	lemmas         []*Obligation
	assumed        []string
	solverSec      float64
	sel            selection
	bounded        []*boundedResult
	fnsByKey       map[string]*ssa.Function
	uncontracted   []string // exported functions of the property's anchor files that carry no contract
	droppedHelpers []string // `helper` contracts whose function no longer exists (callers verified against the inlined code)
}

func hasProp(c *Contract, props []string) bool {
	if len(props) == 0 {
		return true
	}
	for _, p := range c.Props {
		for _, q := range props {
			if p == q {
				return true
			}
		}
	}
	return false
}

func run(cfg runConfig) (*runResult, error) {
	start := time.Now()
	lr, err := loadRepo(cfg.repo, cfg.tags)
	if err != nil {
		return nil, err
	}
	db, err := loadSpecs(cfg.repo, modPath, cfg.specDir)
	if err != nil {
		return nil, err
	}
	e := newEngine(lr, db)
	e.tier = cfg.tier
	e.repoDir = cfg.repo
	e.localsBase = loadLocalsBaseline(cfg.specDir)
	if err := e.initGlobals(lr.order); err != nil {
		return nil, err
	}
	var extPkgs []string
	seenPkg := map[string]bool{}
	for _, c := range db.Contracts {
		if !strings.HasPrefix(c.Pkg, modPath) && !seenPkg[c.Pkg] {
			seenPkg[c.Pkg] = true
			extPkgs = append(extPkgs, c.Pkg)
		}
	}
	fns := allFunctions(lr, extPkgs...)
	res := &runResult{engine: e, fnsByKey: fns}
	var keys []string
	if cfg.prop != "" {
		props, err := loadProperties(cfg.propsFile)
		if err != nil {
			return nil, err
		}
		res.sel = selectFor(cfg.prop, props[cfg.prop], db, fns, lr, cfg.repo, cfg.tier == "thorough" || os.Getenv("VCGO_ANCHORS_ONLY") == "")
		keys = res.sel.keys
		if os.Getenv("VCGO_PRINT_SEL") != "" {
			for _, k := range keys {
				fmt.Println("SELECTED", shortKeyName(k))
			}
		}
		cfg.props = nil
		res.uncontracted = uncontractedExported(props[cfg.prop], db, fns, lr, cfg.repo)
	} else {
		for k := range db.Contracts {
			keys = append(keys, k)
		}
		sort.Strings(keys)
	}
	for _, k := range keys {
		c := db.Contracts[k]
		if c.Trusted != "" || c.Inline {
			continue
		}
		if !hasProp(c, cfg.props) {
			continue
		}
		if cfg.funcs != "" && !funcFilter(k, cfg.funcs) {
			continue
		}
		fn, ok := fns[k]
		if !ok {
			fname := k[strings.LastIndex(k, "::")+2:]
			if i := strings.LastIndex(fname, "."); i >= 0 {
				fname = fname[i+1:]
			}
			if c.Helper && fname != "" && !(fname[0] >= 'A' && fname[0] <= 'Z') {
				res.droppedHelpers = append(res.droppedHelpers, shortKeyName(k))
				continue
			}
			res.errors = append(res.errors, fmt.Sprintf("contract %s (%s) binds to no function", k, c.Source))
			continue
		}
		if cfg.prop == "C17" {
			// secret-independence contracts: information-flow obligations only
			if !c.CT {
				continue
			}
			res.funcs = append(res.funcs, k)
			pkg, rel := e.funcKey(fn)
			e.curFunc = pkg[strings.LastIndex(pkg, "/")+1:] + "." + rel
			if fn.Blocks == nil {
				res.errors = append(res.errors, e.curFunc+": no body in this build configuration")
				continue
			}
			e.obls = append(e.obls, e.checkCT(fn, c)...)
			continue
		}
		res.funcs = append(res.funcs, k)
		if err := e.verifyFunction(fn, c); err != nil {
			res.errors = append(res.errors, err.Error())
		}
	}
	res.errors = append(res.errors, e.errors...)
	// lemmas used
	var lnames []string
	for n := range e.usedLemmas {
		lnames = append(lnames, n)
	}
	sort.Strings(lnames)
	for _, n := range lnames {
		lm := db.Lemmas[n]
		if strings.HasPrefix(lm.Proof, "lean:") && cfg.tier == "thorough" {
			// thorough tier: the bridge lemmas are checked by Lean 4 / Mathlib (spec/Lemmas.lean)
			ok, detail := leanCheck(cfg.specDir)
			if ok {
				o := &Obligation{Name: "lemma." + n, Kind: "lemma", Func: "lemma", Props: cfg.props, Goal: tTrue,
					Text:   "lemma " + n + " = theorem Verif." + strings.TrimPrefix(lm.Proof, "lean:") + " of spec/Lemmas.lean, stated for an arbitrary modulus (prime where the theorem says so) and instantiated at P / N (fm_*: r = class of 2^256); the primality of the literals P and N stays an assumption",
					Result: &SolveResult{Status: "unsat", Solver: "lean4-mathlib", Backend: "lean4-mathlib", Output: detail}}
				e.obls = append(e.obls, o)
				continue
			}
			res.assumed = append(res.assumed, fmt.Sprintf("lemma %s (%s; Lean check did not succeed: %s)", n, lm.Proof, trunc(detail, 200)))
			continue
		}
		if strings.HasPrefix(lm.Proof, "lean:") {
			res.assumed = append(res.assumed, fmt.Sprintf("lemma %s (assumed in the quick tier; it is theorem Verif.%s of spec/Lemmas.lean, checked by Lean 4 / Mathlib in the thorough tier)", n, strings.TrimPrefix(lm.Proof, "lean:")))
			continue
		}
		if lemmaIsAssumed(lm) {
			res.assumed = append(res.assumed, fmt.Sprintf("lemma %s (%s)", n, lm.Proof))
			continue
		}
		o := e.lemmaObligation(lm)
		o.Props = cfg.props
		e.obls = append(e.obls, o)
	}
	// bounded execution stand-ins attached to (trusted) contracts of this property
	if cfg.prop != "" && cfg.funcs == "" {
		var bk []string
		for k, c := range db.Contracts {
			if len(c.BoundedChecks) > 0 && hasProp(c, []string{cfg.prop}) {
				bk = append(bk, k)
			}
		}
		sort.Strings(bk)
		ranBounded := map[string]bool{}
		for _, k := range bk {
			for _, h := range db.Contracts[k].BoundedChecks {
				// `boundedcheck harness@Cxx` runs only for that property
				if name, only, ok := strings.Cut(h, "@"); ok {
					if only != cfg.prop {
						continue
					}
					h = name
				}
				if ranBounded[h] {
					continue // one harness may stand in for several functions
				}
				ranBounded[h] = true
				res.bounded = append(res.bounded, runBounded(cfg.repo, shortKeyName(k), h))
			}
		}
	}
	if cfg.prop == "C20" && cfg.funcs == "" {
		n, stores := globalStoreScan(lr, modPath)
		o := &Obligation{Name: "module#global-stores", Kind: "ground", Func: "module", Goal: mkBool(len(stores) == 0), Props: []string{"C20"},
			Text: fmt.Sprintf("no function of the module (%d scanned, tests excluded) stores to a package-level variable outside package initialisation", n)}
		stt := "unsat"
		if len(stores) > 0 {
			stt = "sat"
		}
		o.Result = &SolveResult{Status: stt, Solver: "ground", Backend: "ground", Output: strings.Join(stores, "\n")}
		e.obls = append(e.obls, o)
	}
	if cfg.prop == "C19" && cfg.funcs == "" {
		ao, aerrs := e.asmObligations(cfg.repo, lr)
		for _, o := range ao {
			if !strings.HasSuffix(o.Name, ".ct-trace") { // trace equality belongs to C17
				e.obls = append(e.obls, o)
			}
		}
		e.obls = append(e.obls, buildConfigObligation(cfg.repo))
		for _, x := range aerrs {
			res.errors = append(res.errors, x)
		}
		if len(ao) == 0 && len(aerrs) == 0 {
			res.errors = append(res.errors, "the assembly front end produced no obligations")
		}
	}
	if cfg.prop == "C05" || cfg.tables {
		td := e.loadTables(cfg.repo)
		if td.err != nil {
			res.errors = append(res.errors, td.err.Error())
		}
	}
	if cfg.prop == "C17" && cfg.funcs == "" {
		// the SSE2 lookups of the default build: trace equality over all indices (asm.go)
		ao, aerrs := e.asmObligations(cfg.repo, lr)
		n := 0
		for _, o := range ao {
			if strings.HasSuffix(o.Name, ".ct-trace") {
				e.obls = append(e.obls, o)
				n++
			}
		}
		e.obls = append(e.obls, buildConfigObligation(cfg.repo))
		res.errors = append(res.errors, aerrs...)
		if n != 2 && len(aerrs) == 0 {
			res.errors = append(res.errors, fmt.Sprintf("the assembly front end produced %d trace obligations, expected 2", n))
		}
	}
	if e.tables != nil {
		for _, o := range e.tables.obls {
			o.Props = []string{"C05"}
		}
		e.obls = append(e.obls, e.tables.obls...)
	}
	res.obls = e.obls
	if os.Getenv("VCGO_NOPROVE") != "" {
		cnt := map[string]int{}
		for _, o := range res.obls {
			k := o.Kind + ":syntactic"
			if o.Result == nil {
				k = o.Kind + ":NEEDS-SOLVER"
				o.Result = &SolveResult{Status: "unsat", Solver: "skipped"}
			}
			cnt[k]++
		}
		fmt.Println("obligation kinds:", cnt)
		shown := map[string]int{}
		for _, o := range res.obls {
			if o.Result.Solver == "skipped" && shown[o.Kind] < 3 {
				shown[o.Kind]++
				fmt.Printf("  e.g. %s  hyps=%d goal=%s\n", o.Name, len(o.Hyps), trunc(o.Goal.Key(), 200))
			}
		}
	}
	discharge(res.obls, cfg.timeout, cfg.verbose)
	for _, o := range res.obls {
		if o.Result != nil {
			res.solverSec += o.Result.Time
		}
	}
	res.wall = time.Since(start).Seconds()
	return res, nil
}

func discharge(obls []*Obligation, timeout int, verbose bool) {
	var wg sync.WaitGroup
	sem := make(chan struct{}, 6)
	for _, o := range obls {
		if o.Result != nil {
			continue
		}
		wg.Add(1)
		go func(o *Obligation) {
			defer wg.Done()
			sem <- struct{}{}
			defer func() { <-sem }()
			t := timeout
			if o.Timeout > 0 {
				t = o.Timeout
			}
			if o.From != nil {
				// proof hint of the contract: the facts of the named clauses (plus what they share symbols with
				// at depth 0) are tried on their own; failing that the obligation goes through the usual stages
				hs := append([]*Term{}, o.From...)
				hs = append(hs, bitUFFacts(append(append([]*Term{}, hs...), o.Goal))...)
				q := &Query{Name: o.Name + ".from", Hyps: hs, Goal: o.Goal, NIA: o.NIA}
				r := solve(q, 3)
				if r.Status == "unsat" {
					r.Backend = "from-hint"
					o.Result = &r
					return
				}
			}
			if o.Alt != nil {
				for _, depth := range []int{0, 1, 99} {
					sel := relevantHyps(o.Hyps, o.Alt, depth)
					if depth == 99 {
						sel = o.Hyps
					}
					hs := append(append([]*Term{}, sel...), bitUFFacts(append(append([]*Term{}, sel...), o.Alt))...)
					q := &Query{Name: fmt.Sprintf("%s.alt%d", o.Name, depth), Hyps: hs, Goal: o.Alt, NIA: o.NIA}
					at := 3
					if depth == 99 {
						at = t
					}
					r := solve(q, at)
					if r.Status == "unsat" {
						r.Backend = "sufficient-condition"
						o.Result = &r
						return
					}
				}
			}
			// relevance filtering (cone of influence over shared symbols), widened step by step; dropping
			// hypotheses is sound, the last attempt uses all of them
			if o.Kind != "cover" && len(o.Hyps) > 40 {
				spent := 0.0
				for _, depth := range []int{0, 1, 3} {
					sel := relevantHyps(o.Hyps, o.Goal, depth)
					if len(sel) >= len(o.Hyps)*9/10 {
						break
					}
					hs := append(append([]*Term{}, sel...), bitUFFacts(append(append([]*Term{}, sel...), o.Goal))...)
					q := &Query{Name: fmt.Sprintf("%s.rel%d", o.Name, depth), Hyps: hs, Goal: o.Goal, NIA: o.NIA}
					rt := t / 2
					if rt < 2 {
						rt = 2
					}
					r := solve(q, rt)
					spent += r.Time
					if r.Status == "unsat" {
						r.Time = spent
						r.Backend = fmt.Sprintf("relevance-depth-%d", depth)
						o.Result = &r
						return
					}
				}
			}
			hyps := append([]*Term{}, o.Hyps...)
			hyps = append(hyps, bitUFFacts(append(hyps, o.Goal))...)
			q := &Query{Name: o.Name, Hyps: hyps, Goal: o.Goal, NIA: o.NIA}
			r := solve(q, t)
			o.Result = &r
		}(o)
	}
	wg.Wait()
	// Second chance for undecided obligations (timeout/unknown, never for a refutation): a loaded or slower
	// machine must not turn a solver timeout into an alarm.  They are re-run two at a time with three times the
	// budget (20..60 s) and every solver started at once; the stage as a whole is bounded (150 s).  The number retried is capped, so a change that breaks many
	// obligations is still reported promptly.
	var again []*Obligation
	for _, o := range obls {
		if o.Kind != "cover" && o.Result != nil && o.Goal != nil && (o.Result.Status == "timeout" || o.Result.Status == "unknown") {
			again = append(again, o)
		}
	}
	if len(again) > 0 && len(again) <= 8 && os.Getenv("VCGO_NO_RETRY") == "" {
		sem2 := make(chan struct{}, 2)
		retryStart := time.Now()
		for _, o := range again {
			wg.Add(1)
			go func(o *Obligation) {
				defer wg.Done()
				sem2 <- struct{}{}
				defer func() { <-sem2 }()
				t := timeout
				if o.Timeout > 0 {
					t = o.Timeout
				}
				first := *o.Result
				var qs []*Query
				if len(o.Hyps) > 40 {
					for _, depth := range []int{1, 3} {
						sel := relevantHyps(o.Hyps, o.Goal, depth)
						hs := append(append([]*Term{}, sel...), bitUFFacts(append(append([]*Term{}, sel...), o.Goal))...)
						qs = append(qs, &Query{Name: fmt.Sprintf("%s.retry-rel%d", o.Name, depth), Hyps: hs, Goal: o.Goal, NIA: o.NIA})
					}
				}
				hyps := append([]*Term{}, o.Hyps...)
				hyps = append(hyps, bitUFFacts(append(hyps, o.Goal))...)
				qs = append(qs, &Query{Name: o.Name + ".retry", Hyps: hyps, Goal: o.Goal, NIA: o.NIA})
				spent := first.Time
				rt := 3 * t
				if rt < 20 {
					rt = 20
				}
				if rt > 60 {
					rt = 60
				}
				for _, q := range qs {
					if time.Since(retryStart) > 150*time.Second {
						break // the retry stage as a whole is bounded
					}
					q.Eager = true
					r := solve(q, rt)
					spent += r.Time
					if r.Status == "unsat" || (r.Status == "sat" && q == qs[len(qs)-1]) {
						r.Time = spent
						r.Backend = "retry"
						o.Result = &r
						return
					}
				}
				first.Time = spent
				o.Result = &first
			}(o)
		}
		wg.Wait()
	}
}

func (o *Obligation) ok() bool {
	if o.Result == nil {
		return false
	}
	if o.Kind == "cover" {
		return o.Result.Status != "unsat"
	}
	return o.Result.Status == "unsat"
}

func main() {
	debug.SetGCPercent(300)
	if len(os.Args) < 2 {
		fmt.Fprintln(os.Stderr, "usage: vcgo <check|dump> [flags]")
		os.Exit(2)
	}
	switch os.Args[1] {
	case "check":
		os.Exit(cmdCheck(os.Args[2:]))
	case "dump":
		os.Exit(cmdDump(os.Args[2:]))
	case "baseline":
		os.Exit(cmdBaseline(os.Args[2:]))
	default:
		fmt.Fprintln(os.Stderr, "unknown command", os.Args[1])
		os.Exit(2)
	}
}

func cmdDump(args []string) int {
	fs := flag.NewFlagSet("dump", flag.ExitOnError)
	repo := fs.String("repo", "/repo", "repository")
	tags := fs.String("tags", "verif,purego", "build tags")
	_ = fs.Parse(args)
	lr, err := loadRepo(*repo, *tags)
	if err != nil {
		fmt.Fprintln(os.Stderr, err)
		return 2
	}
	fns := allFunctions(lr)
	var ks []string
	for k := range fns {
		ks = append(ks, k)
	}
	sort.Strings(ks)
	for _, k := range ks {
		fmt.Println(k)
	}
	return 0
}

func cmdCheck(args []string) int {
	fs := flag.NewFlagSet("check", flag.ExitOnError)
	repo := fs.String("repo", "/repo", "repository")
	spec := fs.String("spec", "/verif/spec", "spec directory")
	props := fs.String("props", "", "comma separated property tags (contracts carrying them)")
	prop := fs.String("prop", "", "property id: verify its contracts and its anchored dependency cone")
	propsFile := fs.String("properties", "/verif/properties.jsonl", "properties file")
	funcs := fs.String("func", "", "only functions whose key contains this")
	tier := fs.String("tier", "quick", "quick|thorough")
	timeout := fs.Int("timeout", 0, "per-obligation solver timeout (s)")
	tags := fs.String("tags", "verif,purego", "build tags")
	verbose := fs.Bool("v", false, "verbose")
	out := fs.String("out", "/verif/out", "output directory for SMT files")
	evidence := fs.String("evidence", "", "evidence file to write")
	replayDir := fs.String("replaydir", "/verif/replay", "directory for violation/replay files")
	seed := fs.Int64("seed", 0, "seed")
	cpuprof := fs.String("cpuprofile", "", "write cpu profile")
	tablesFlag := fs.Bool("tables", false, "check the generator tables (ground obligations)")
	_ = fs.Parse(args)
	if mp := os.Getenv("VCGO_MEMPROFILE"); mp != "" {
		defer func() {
			f, _ := os.Create(mp)
			_ = pprof.Lookup("allocs").WriteTo(f, 0)
			f.Close()
		}()
	}
	if *cpuprof != "" {
		f, _ := os.Create(*cpuprof)
		_ = pprof.StartCPUProfile(f)
		defer pprof.StopCPUProfile()
	}
	outDir = *out
	cfg := runConfig{repo: *repo, specDir: *spec, funcs: *funcs, tier: *tier, timeout: *timeout, tags: *tags, verbose: *verbose, prop: *prop, propsFile: *propsFile, seed: *seed, tables: *tablesFlag}
	if *props != "" {
		cfg.props = strings.Split(*props, ",")
	}
	if cfg.timeout == 0 {
		cfg.timeout = 10
		if cfg.tier == "thorough" {
			cfg.timeout = 60
		}
	}
	if cfg.prop != "" {
		outDir = filepath.Join(*out, cfg.prop)
		_ = os.RemoveAll(outDir)
	}
	if cfg.prop != "" {
		startResourceWatchdog(cfg.prop, *replayDir)
	}
	res, err := run(cfg)
	if err != nil {
		fmt.Println("ENGINE-ERROR:", err)
		if cfg.prop != "" {
			v := &violation{Obligation: "engine.load", Kind: "engine", Statement: "the repository loads and every contract can be processed", Status: "error", Output: err.Error()}
			f := writeViolation(*replayDir, cfg.prop, v)
			fmt.Printf("VIOLATION property=%s replay=%s obligation=engine.load no-failing-input-found\n", cfg.prop, f)
			return 1
		}
		return 2
	}
	var viols []*violation
	byBackend := map[string]int{}
	for _, o := range res.obls {
		if o.ok() {
			byBackend[o.Result.Solver]++
			if *verbose {
				fmt.Printf("  ok   %-90s %s %.2fs\n", o.Name, o.Result.Solver, o.Result.Time)
			}
			continue
		}
		v := &violation{Obligation: o.Name, Kind: o.Kind, Statement: o.Text, Status: o.Result.Status, Solver: o.Result.Solver, Output: o.Result.Output, SMTFile: o.Result.File}
		if o.Kind == "cover" {
			v.Statement = "vacuity guard failed: " + o.Text
		}
		if o.Result.Status == "sat" {
			v.Model = parseModel(o.Result.Output)
		}
		viols = append(viols, v)
		fmt.Printf("  FAIL %s [%s] %s\n       %s\n       file: %s\n", o.Name, o.Result.Status, o.Text, firstLines(o.Result.Output, 2), o.Result.File)
		if *verbose && v.Model != nil {
			ls := sortedModel(v.Model)
			if len(ls) > 24 {
				ls = ls[:24]
			}
			for _, l := range ls {
				fmt.Println("         ", l)
			}
		}
	}
	errSeen := map[string]int{}
	for i, er := range res.errors {
		fmt.Println("  ERROR", er)
		// name the obligation after the function it concerns: "<pkg>.<Func>#verifiable" (the message starts with
		// the function's name); anything else keeps the generic name
		name := fmt.Sprintf("engine.error.%d", i)
		if strings.HasPrefix(er, "asm ") {
			// "asm <routine>/idx=<k>: ..." -> asm.<routine>/idx=<k>#verifiable
			if j := strings.Index(er, ": "); j > 4 && !strings.ContainsAny(er[4:j], " \t") {
				er2 := "asm." + er[4:j]
				name = er2 + "#verifiable"
			}
		} else if j := strings.Index(er, ": "); j > 0 && !strings.ContainsAny(er[:j], " \t") && strings.Contains(er[:j], ".") {
			name = er[:j] + "#verifiable"
			errSeen[name]++
			if n := errSeen[name]; n > 1 {
				name = fmt.Sprintf("%s/%d", name, n)
			}
		}
		viols = append(viols, &violation{Obligation: name, Kind: "engine", Statement: "every contracted function can be symbolically executed against its contract, and every contract binds", Status: "error", Output: er})
	}
	for _, b := range res.bounded {
		if b.Error != "" {
			viols = append(viols, &violation{Obligation: "bounded." + b.Harness, Kind: "engine", Statement: "the bounded stand-in for " + b.Function + " runs", Status: "error", Output: b.Error})
			fmt.Println("  ERROR bounded", b.Harness, b.Error)
		} else if b.Failed > 0 {
			viols = append(viols, &violation{Obligation: "bounded." + b.Harness, Kind: "bounded", Statement: "contract of " + b.Function + " on every input of the bounded grid (" + b.Bound + ")", Status: "failing-input", Output: strings.Join(b.Failures, "\n"),
				Replay: &replayResult{Attempted: true, Failing: true, Input: b.Failures[0], Observed: "the real function's output violates its contract for this input (executed with go test -overlay)"}})
			fmt.Printf("  FAIL bounded %s: %d of %d cases fail, e.g. %s\n", b.Harness, b.Failed, b.Cases, trunc(b.Failures[0], 300))
		} else {
			fmt.Printf("  bounded %s: %d cases ok (stand-in, not a proof)\n", b.Harness, b.Cases)
		}
	}
	nobl := 0
	for _, o := range res.obls {
		if o.Kind != "cover" {
			nobl++
		}
	}
	if cfg.prop != "" && nobl == 0 {
		viols = append(viols, &violation{Obligation: "engine.no-obligations", Kind: "engine", Statement: "the property generates at least one obligation", Status: "error", Output: "zero obligations generated"})
	}
	fmt.Printf("functions=%d obligations=%d failed=%d errors=%d wall=%.1fs solver=%.1fs backends=%v\n", len(res.funcs), len(res.obls), len(viols)-len(res.errors), len(res.errors), res.wall, res.solverSec, byBackend)
	if cfg.prop != "" {
		_ = os.RemoveAll(filepath.Join(*replayDir, cfg.prop))
		var vs []violation
		replays := 0
		for _, v := range viols {
			if v.Kind != "engine" && v.Kind != "cover" && v.Kind != "bounded" {
				if replays < 8 {
					v.Replay = tryReplay(cfg, res, v)
					if v.Replay.Attempted {
						replays++
					}
				} else {
					v.Replay = &replayResult{Log: []string{"replay budget of this run (8 executions) used by earlier violations"}}
				}
			}
			writeViolation(*replayDir, cfg.prop, v)
			vs = append(vs, *v)
		}
		if *evidence != "" {
			if err := writeEvidence(*evidence, cfg.prop, cfg, res, res.sel, vs, nil); err != nil {
				fmt.Println("ENGINE-ERROR: cannot write evidence:", err)
				return 2
			}
		}
		shown := 0
		for _, v := range viols {
			suffix := " no-failing-input-found"
			if v.Replay != nil && v.Replay.Failing {
				suffix = ""
			}
			fmt.Printf("VIOLATION property=%s replay=%s obligation=%s%s\n", cfg.prop, v.File, v.Obligation, suffix)
			shown++
			if shown >= 40 {
				fmt.Printf("... %d more violations\n", len(viols)-shown)
				break
			}
		}
	}
	if len(viols) > 0 {
		return 1
	}
	return 0
}

func typesPointer(t types.Type) types.Type { return types.NewPointer(t) }

// termSymbols returns the variable / nullary symbols of a term.
func termSymbols(t *Term, memo map[*Term]map[string]bool) map[string]bool {
	if m, ok := memo[t]; ok {
		return m
	}
	m := map[string]bool{}
	t.walk(func(u *Term) {
		if u.Op == "var" {
			m[u.Name] = true
		} else if u.Op == "app" && len(u.Args) == 0 {
			m["@"+u.Name] = true
		}
	})
	memo[t] = m
	return m
}

// relevantHyps selects the hypotheses connected to the goal through shared symbols within `depth` rounds.
func relevantHyps(hyps []*Term, goal *Term, depth int) []*Term {
	memo := map[*Term]map[string]bool{}
	syms := map[string]bool{}
	for k := range termSymbols(goal, memo) {
		syms[k] = true
	}
	picked := make([]bool, len(hyps))
	for d := 0; d < depth; d++ {
		changed := false
		for i, h := range hyps {
			if picked[i] {
				continue
			}
			hs := termSymbols(h, memo)
			hit := false
			for k := range hs {
				if syms[k] {
					hit = true
					break
				}
			}
			if hit {
				picked[i] = true
				changed = true
				if d+1 < depth {
					for k := range hs {
						syms[k] = true
					}
				}
			}
		}
		if d+1 < depth {
			// symbols are widened only between rounds
			for i, h := range hyps {
				if picked[i] {
					for k := range termSymbols(h, memo) {
						syms[k] = true
					}
				}
			}
		}
		if !changed {
			break
		}
	}
	var out []*Term
	for i, h := range hyps {
		if picked[i] {
			out = append(out, h)
		}
	}
	return out
}

// funcFilter: substring match; a trailing "$" anchors the pattern at the end of the key.
func funcFilter(key, pat string) bool {
	if strings.HasSuffix(pat, "$") {
		return strings.HasSuffix(key, strings.TrimSuffix(pat, "$"))
	}
	return strings.Contains(key, pat)
}

var leanResult struct {
	done   bool
	ok     bool
	detail string
}

// leanCheck compiles spec/Lemmas.lean once per run (Lean 4 with Mathlib, offline).
func leanCheck(specDir string) (bool, string) {
	if leanResult.done {
		return leanResult.ok, leanResult.detail
	}
	leanResult.done = true
	start := time.Now()
	cmd := exec.Command("lean", filepath.Join(specDir, "Lemmas.lean"))
	out, err := cmd.CombinedOutput()
	txt := string(out)
	if err != nil || strings.Contains(txt, "error") || strings.Contains(txt, "sorry") {
		leanResult.detail = fmt.Sprintf("lean failed: %v %s", err, trunc(txt, 400))
		return false, leanResult.detail
	}
	leanResult.ok = true
	leanResult.detail = fmt.Sprintf("lean spec/Lemmas.lean: no errors, no sorry (%.0f s)", time.Since(start).Seconds())
	return true, leanResult.detail
}

// cmdBaseline writes spec/locals.baseline.json: definition signatures of the named locals of every contracted
// function of the (unchanged) tree.
func cmdBaseline(args []string) int {
	fs := flag.NewFlagSet("baseline", flag.ExitOnError)
	repo := fs.String("repo", "/repo", "repository")
	specDir := fs.String("spec", "/verif/spec", "spec directory")
	tags := fs.String("tags", "verif,purego", "build tags")
	_ = fs.Parse(args)
	lr, err := loadRepo(*repo, *tags)
	if err != nil {
		fmt.Fprintln(os.Stderr, err)
		return 2
	}
	db, err := loadSpecs(*repo, modPath, *specDir)
	if err != nil {
		fmt.Fprintln(os.Stderr, err)
		return 2
	}
	fns := allFunctions(lr)
	out := localsBaseline{}
	for k := range db.Contracts {
		fn, ok := fns[k]
		if !ok || fn.Blocks == nil || !strings.HasPrefix(k, modPath) {
			continue
		}
		if s := localSigs(fn); len(s) > 0 {
			out[k] = s
		}
	}
	data, _ := json.MarshalIndent(out, "", " ")
	if err := os.WriteFile(filepath.Join(*specDir, "locals.baseline.json"), append(data, '\n'), 0o644); err != nil {
		fmt.Fprintln(os.Stderr, err)
		return 2
	}
	fmt.Printf("baseline: %d functions\n", len(out))
	return 0
}

// Resource watchdog.  Changed code can make the symbolic execution of a function explode (seed C16-6: shared
// inversion over a table of symbolic points took 60 GB).  A check that is killed by the operating system decides
// nothing, so the engine stops itself first and reports the function it was working on as not verifiable.
var watchedFunc atomic.Value // string: the function being verified

func startResourceWatchdog(prop, replayDir string) {
	limit := uint64(12) << 30
	if v := os.Getenv("VCGO_MEM_LIMIT_GB"); v != "" {
		if n, err := strconv.Atoi(v); err == nil && n > 0 {
			limit = uint64(n) << 30
		}
	}
	go func() {
		var ms runtime.MemStats
		for {
			time.Sleep(500 * time.Millisecond)
			runtime.ReadMemStats(&ms)
			if ms.HeapAlloc < limit {
				continue
			}
			fn, _ := watchedFunc.Load().(string)
			if fn == "" {
				fn = "engine"
			}
			v := &violation{Obligation: fn + "#verifiable", Kind: "engine", Statement: "every contracted function can be symbolically executed against its contract within the engine's resource limits", Status: "error",
				Output: fmt.Sprintf("resource limit: the symbolic execution of %s needs more than %d GB of memory (path or term explosion); the function is not verified", fn, limit>>30)}
			f := writeViolation(replayDir, prop, v)
			fmt.Printf("  ERROR %s\n", v.Output)
			fmt.Printf("VIOLATION property=%s replay=%s obligation=%s no-failing-input-found\n", prop, f, v.Obligation)
			os.Exit(1)
		}
	}()
}
