package main

// SMT-LIB emission and solver racing.

import (
	"bytes"
	"context"
	"fmt"
	"math/big"
	"os"
	"os/exec"
	"path/filepath"
	"regexp"
	"sort"
	"strings"
	"sync"
	"time"
)

type renderer struct {
	nia     bool // render Int products as real multiplication
	decls   map[string]string
	declOrd []string
	side    map[string]bool // side assertions (ranges)
	sideOrd []string
	memo    map[*Term]string
	memoK   map[string]string
	defN    int
	usesPt  bool
}

func newRenderer(nia bool) *renderer {
	return &renderer{nia: nia, decls: map[string]string{}, side: map[string]bool{}, memo: map[*Term]string{}, memoK: map[string]string{}}
}

var identRe = regexp.MustCompile(`^[A-Za-z_][A-Za-z0-9_.$]*$`)

func smtName(n string) string {
	if identRe.MatchString(n) {
		return n
	}
	return "|" + strings.ReplaceAll(n, "|", "!") + "|"
}

func smtNum(v *big.Int) string {
	if v.Sign() < 0 {
		return "(- " + new(big.Int).Neg(v).String() + ")"
	}
	return v.String()
}

func smtSort(s Sort, w int) string {
	switch s {
	case SInt, SFp, SFn:
		return "Int"
	case SBool:
		return "Bool"
	case SPt:
		return "Pt"
	case SArr:
		return "(Array Int Int)"
	case SBV:
		return fmt.Sprintf("(_ BitVec %d)", w)
	}
	panic("sort")
}

func (r *renderer) declare(name, decl string) {
	if _, ok := r.decls[name]; !ok {
		r.decls[name] = decl
		r.declOrd = append(r.declOrd, name)
	}
}

func (r *renderer) addSide(s string) {
	if !r.side[s] {
		r.side[s] = true
		r.sideOrd = append(r.sideOrd, s)
	}
}

func (r *renderer) rangeSide(rs string, lo, hi *big.Int) {
	if lo != nil {
		r.addSide(fmt.Sprintf("(<= %s %s)", smtNum(lo), rs))
	}
	if hi != nil {
		r.addSide(fmt.Sprintf("(<= %s %s)", rs, smtNum(hi)))
	}
}

func ringSuffix(s Sort) string {
	switch s {
	case SFp:
		return "p"
	case SFn:
		return "n"
	}
	return "i"
}

func (r *renderer) render(t *Term) string {
	if s, ok := r.memo[t]; ok {
		return s
	}
	if s, ok := r.memoK[t.Key()]; ok {
		r.memo[t] = s
		return s
	}
	s := r.render0(t)
	if len(s) > 160 && t.Sort != SBool && t.Sort != SArr && (t.Op == "ite" || t.Op == "poly" || t.Op == "div" || t.Op == "mod") {
		// share big subterms through a defined constant
		r.defN++
		n := fmt.Sprintf("def!%d", r.defN)
		r.declOrd = append(r.declOrd, n)
		r.decls[n] = fmt.Sprintf("(define-fun %s () %s %s)", n, smtSort(t.Sort, t.W), s)
		s = n
	}
	r.memo[t] = s
	r.memoK[t.Key()] = s
	return s
}

func (r *renderer) renderMono(s Sort, m *Mono) (string, *big.Int, *big.Int) {
	// returns rendering and (for Int) range
	var cur string
	var lo, hi *big.Int
	first := true
	suffix := ringSuffix(s)
	for _, f := range m.f {
		as := r.render(f.atom)
		alo, ahi := rangeOf(f.atom)
		var fs string
		var flo, fhi *big.Int
		if f.exp.Cmp(big1) == 0 {
			fs, flo, fhi = as, alo, ahi
		} else if s == SInt && f.exp.BitLen() <= 4 {
			fs, flo, fhi = as, alo, ahi
			for i := int64(1); i < f.exp.Int64(); i++ {
				fs, flo, fhi = r.mulRender(s, fs, flo, fhi, as, alo, ahi)
			}
		} else {
			name := "fpow" + suffix
			r.declare(name, fmt.Sprintf("(declare-fun %s (Int Int) Int)", name))
			fs = fmt.Sprintf("(%s %s %s)", name, as, f.exp.String())
			if md := modulusOf(s); md != nil {
				flo, fhi = big0, new(big.Int).Sub(md, big1)
				r.rangeSide(fs, flo, fhi)
			}
		}
		if first {
			cur, lo, hi = fs, flo, fhi
			first = false
		} else {
			cur, lo, hi = r.mulRender(s, cur, lo, hi, fs, flo, fhi)
		}
	}
	return cur, lo, hi
}

func (r *renderer) mulRender(s Sort, a string, alo, ahi *big.Int, b string, blo, bhi *big.Int) (string, *big.Int, *big.Int) {
	if s == SInt && r.nia {
		return fmt.Sprintf("(* %s %s)", a, b), nil, nil
	}
	if r.nia && modulusOf(s) != nil {
		return fmt.Sprintf("(mod (* %s %s) %s)", a, b, modulusOf(s).String()), big0, new(big.Int).Sub(modulusOf(s), big1)
	}
	name := "fmul" + ringSuffix(s)
	r.declare(name, fmt.Sprintf("(declare-fun %s (Int Int) Int)", name))
	if a > b {
		a, b = b, a
		alo, ahi, blo, bhi = blo, bhi, alo, ahi
	}
	rs := fmt.Sprintf("(%s %s %s)", name, a, b)
	var lo, hi *big.Int
	if md := modulusOf(s); md != nil {
		lo, hi = big0, new(big.Int).Sub(md, big1)
	} else if alo != nil && ahi != nil && blo != nil && bhi != nil && alo.Sign() >= 0 && blo.Sign() >= 0 {
		lo = new(big.Int).Mul(alo, blo)
		hi = new(big.Int).Mul(ahi, bhi)
	}
	r.rangeSide(rs, lo, hi)
	return rs, lo, hi
}

func (r *renderer) render0(t *Term) string {
	switch t.Op {
	case "const":
		switch t.Sort {
		case SBool:
			if t.Val.Sign() != 0 {
				return "true"
			}
			return "false"
		case SBV:
			return fmt.Sprintf("(_ bv%s %d)", t.Val.String(), t.W)
		}
		return smtNum(t.Val)
	case "var":
		n := smtName(t.Name)
		r.declare(t.Name, fmt.Sprintf("(declare-const %s %s)", n, smtSort(t.Sort, t.W)))
		if t.Sort == SPt {
			r.usesPt = true
		}
		if md := modulusOf(t.Sort); md != nil {
			r.rangeSide(n, big0, new(big.Int).Sub(md, big1))
		} else if t.Sort == SInt {
			r.rangeSide(n, t.Lo, t.Hi)
		}
		return n
	case "poly":
		p := t.P
		var parts []string
		for _, k := range p.sortedKeys() {
			e := p.t[k]
			if k == "" {
				parts = append(parts, smtNum(e.c))
				continue
			}
			ms, _, _ := r.renderMono(p.sort, e.m)
			if e.c.Cmp(big1) == 0 {
				parts = append(parts, ms)
			} else {
				parts = append(parts, fmt.Sprintf("(* %s %s)", smtNum(e.c), ms))
			}
		}
		var s string
		if len(parts) == 1 {
			s = parts[0]
		} else {
			s = "(+ " + strings.Join(parts, " ") + ")"
		}
		if md := modulusOf(p.sort); md != nil {
			s = fmt.Sprintf("(mod %s %s)", s, md.String())
		}
		return s
	case "lin":
		r.usesPt = true
		es := t.L.sorted()
		if len(es) == 0 {
			return "PtO"
		}
		var cur string
		for i := len(es) - 1; i >= 0; i-- {
			e := es[i]
			var one string
			if e.coef.IsConst() && e.coef.Val.Cmp(big1) == 0 {
				one = r.render(e.atom)
			} else {
				cs, as := r.render(e.coef), r.render(e.atom)
				one = fmt.Sprintf("(smul %s %s)", cs, as)
				if !e.coef.IsConst() {
					// ground instances of the module axioms 0*P = O, 1*P = P for symbolic coefficients
					r.addSide(fmt.Sprintf("(=> (= %s 0) (= %s PtO))", cs, one))
					r.addSide(fmt.Sprintf("(=> (= %s 1) (= %s %s))", cs, one, as))
				}
			}
			if cur == "" {
				cur = one
			} else {
				cur = fmt.Sprintf("(padd %s %s)", one, cur)
			}
		}
		return cur
	case "ite":
		return fmt.Sprintf("(ite %s %s %s)", r.render(t.Args[0]), r.render(t.Args[1]), r.render(t.Args[2]))
	case "not":
		return fmt.Sprintf("(not %s)", r.render(t.Args[0]))
	case "and":
		parts := make([]string, len(t.Args))
		for i, a := range t.Args {
			parts[i] = r.render(a)
		}
		return "(and " + strings.Join(parts, " ") + ")"
	case "=":
		return fmt.Sprintf("(= %s %s)", r.render(t.Args[0]), r.render(t.Args[1]))
	case "<=":
		return fmt.Sprintf("(<= %s %s)", r.render(t.Args[0]), r.render(t.Args[1]))
	case "div":
		return fmt.Sprintf("(div %s %s)", r.render(t.Args[0]), t.Val.String())
	case "mod":
		if in := t.Args[0]; in.Op == "div" && in.Val != nil && in.Val.Sign() > 0 && t.Val.Sign() > 0 {
			// digit extraction (x div a) mod b with constants a, b > 0: state the telescoping identity
			//   a * ((x div a) mod b) = (x mod a*b) - (x mod a)
			// (valid for SMT-LIB's Euclidean div / mod: (x div a) div b = x div (a*b) for positive divisors).  With it
			// "the base-b digits of x add up to x" is linear arithmetic over the atoms (x mod c); without it only one
			// of the three solvers decides the big-endian store of a uint64, and needs 3-18 s for it.
			x := r.render(in.Args[0])
			a, b := in.Val, t.Val
			ab := new(big.Int).Mul(a, b)
			r.addSide(fmt.Sprintf("(= (* %s (mod (div %s %s) %s)) (- (mod %s %s) (mod %s %s)))", a.String(), x, a.String(), b.String(), x, ab.String(), x, a.String()))
		}
		return fmt.Sprintf("(mod %s %s)", r.render(t.Args[0]), t.Val.String())
	case "select":
		s := fmt.Sprintf("(select %s %s)", r.render(t.Args[0]), r.render(t.Args[1]))
		r.rangeSide(s, t.Lo, t.Hi)
		return s
	case "store":
		return fmt.Sprintf("(store %s %s %s)", r.render(t.Args[0]), r.render(t.Args[1]), r.render(t.Args[2]))
	case "app":
		switch t.Name {
		case "toring":
			return fmt.Sprintf("(mod %s %s)", r.render(t.Args[0]), modulusOf(t.Sort).String())
		case "lift":
			return r.render(t.Args[0])
		case "fpow":
			name := "fpow" + ringSuffix(t.Sort)
			r.declare(name, fmt.Sprintf("(declare-fun %s (Int Int) Int)", name))
			s := fmt.Sprintf("(%s %s %s)", name, r.render(t.Args[0]), t.Val.String())
			if md := modulusOf(t.Sort); md != nil {
				r.rangeSide(s, big0, new(big.Int).Sub(md, big1))
			}
			return s
		}
		if t.Sort == SPt {
			r.usesPt = true
		}
		argSorts := make([]string, len(t.Args))
		parts := make([]string, len(t.Args))
		for i, a := range t.Args {
			argSorts[i] = smtSort(a.Sort, a.W)
			if a.Sort == SPt {
				r.usesPt = true
			}
			parts[i] = r.render(a)
		}
		name := t.Name
		if t.Val != nil {
			name += "_" + t.Val.String()
		}
		n := smtName(name)
		var s string
		if len(t.Args) == 0 {
			r.declare(name, fmt.Sprintf("(declare-const %s %s)", n, smtSort(t.Sort, t.W)))
			s = n
		} else {
			r.declare(name, fmt.Sprintf("(declare-fun %s (%s) %s)", n, strings.Join(argSorts, " "), smtSort(t.Sort, t.W)))
			s = fmt.Sprintf("(%s %s)", n, strings.Join(parts, " "))
		}
		if md := modulusOf(t.Sort); md != nil {
			r.rangeSide(s, big0, new(big.Int).Sub(md, big1))
		} else if t.Sort == SInt {
			r.rangeSide(s, t.Lo, t.Hi)
		}
		return s
	}
	if t.Sort == SBV || strings.HasPrefix(t.Op, "bv") {
		return r.renderBV(t)
	}
	panic("render: unknown op " + t.Op)
}

func (r *renderer) renderBV(t *Term) string {
	parts := make([]string, len(t.Args))
	for i, a := range t.Args {
		parts[i] = r.render(a)
	}
	switch t.Op {
	case "bvzext":
		return fmt.Sprintf("((_ zero_extend %d) %s)", t.W-t.Args[0].W, parts[0])
	case "bvextract":
		return fmt.Sprintf("((_ extract %d %d) %s)", t.Val.Int64()+int64(t.W)-1, t.Val.Int64(), parts[0])
	case "bvult", "bvule", "bvadd", "bvsub", "bvmul", "bvand", "bvor", "bvxor", "bvnot", "bvshl", "bvlshr", "concat", "bvneg":
		return "(" + t.Op + " " + strings.Join(parts, " ") + ")"
	}
	panic("renderBV: " + t.Op)
}

// ---------------------------------------------------------------------------- queries

type Query struct {
	Name  string
	Hyps  []*Term
	Goal  *Term
	NIA   bool
	Extra []string // raw SMT-LIB assertions (axiom instances)
	Comm  bool
	Eager bool // start every solver at once (retry stage)
}

func (q *Query) smtlib() string {
	r := newRenderer(q.NIA)
	var hs []string
	for _, h := range q.Hyps {
		if h.IsConst() && h.Val.Sign() != 0 {
			continue
		}
		hs = append(hs, r.render(h))
	}
	g := r.render(q.Goal)
	var b strings.Builder
	b.WriteString("(set-option :produce-models true)\n(set-logic ALL)\n")
	if r.usesPt {
		b.WriteString("(declare-sort Pt 0)\n(declare-const PtO Pt)\n(declare-fun padd (Pt Pt) Pt)\n(declare-fun smul (Int Pt) Pt)\n")
	}
	for _, n := range r.declOrd {
		b.WriteString(r.decls[n] + "\n")
	}
	if _, ok := r.decls["fmuli"]; ok && q.Comm {
		// integer limb products are products: commutative (needed when aliased operands make a_i = b_i)
		b.WriteString("(assert (forall ((x Int) (y Int)) (! (= (fmuli x y) (fmuli y x)) :pattern ((fmuli x y)))))\n")
	}
	for _, s := range r.sideOrd {
		b.WriteString("(assert " + s + ")\n")
	}
	for _, e := range q.Extra {
		b.WriteString("(assert " + e + ")\n")
	}
	for _, h := range hs {
		b.WriteString("(assert " + h + ")\n")
	}
	b.WriteString("(assert (not " + g + "))\n(check-sat)\n(get-model)\n")
	return b.String()
}

type SolveResult struct {
	Status  string // unsat sat unknown timeout error
	Solver  string
	Time    float64
	Output  string
	File    string
	Backend string
}

type solverSpec struct {
	name string
	cmd  func(file string, timeoutS int) []string
}

var solvers = []solverSpec{
	{"z3-5.1.0", func(f string, t int) []string { return []string{"z3-new", "-smt2", fmt.Sprintf("-T:%d", t), f} }},
	{"z3-4.8.12", func(f string, t int) []string { return []string{"z3", "-smt2", fmt.Sprintf("-T:%d", t), f} }},
	{"cvc5-1.0", func(f string, t int) []string {
		return []string{"cvc5", "--lang=smt2", fmt.Sprintf("--tlimit=%d", t*1000), f}
	}},
}

var (
	outDir       = "/verif/out"
	solverSem    = make(chan struct{}, 16)
	solverTimeMu sync.Mutex
)

func runOne(ctx context.Context, sp solverSpec, file string, timeoutS int) SolveResult {
	solverSem <- struct{}{}
	defer func() { <-solverSem }()
	if ctx.Err() != nil {
		return SolveResult{Status: "cancelled", Solver: sp.name}
	}
	args := sp.cmd(file, timeoutS)
	start := time.Now()
	cctx, cancel := context.WithTimeout(ctx, time.Duration(timeoutS+2)*time.Second)
	defer cancel()
	cmd := exec.CommandContext(cctx, args[0], args[1:]...)
	var out bytes.Buffer
	cmd.Stdout = &out
	cmd.Stderr = &out
	_ = cmd.Run()
	el := time.Since(start).Seconds()
	o := out.String()
	first := strings.TrimSpace(strings.SplitN(o, "\n", 2)[0])
	st := "unknown"
	switch {
	case first == "unsat":
		st = "unsat"
	case first == "sat":
		st = "sat"
	case first == "timeout" || strings.Contains(first, "timeout") || cctx.Err() != nil:
		st = "timeout"
	case first == "unknown":
		st = "unknown"
	default:
		st = "error"
	}
	return SolveResult{Status: st, Solver: sp.name, Time: el, Output: o, File: file}
}

// solve races the solvers; the first definitive answer (sat/unsat) wins.
func solve(q *Query, timeoutS int) SolveResult {
	txt := q.smtlib()
	dir := outDir
	_ = os.MkdirAll(dir, 0o755)
	fn := filepath.Join(dir, sanitizeFile(q.Name)+".smt2")
	if len(txt) > 8<<20 {
		return SolveResult{Status: "error", Output: "VC too large (needs a cut)", File: fn}
	}
	if err := os.WriteFile(fn, []byte(txt), 0o644); err != nil {
		return SolveResult{Status: "error", Output: err.Error()}
	}
	ctx, cancel := context.WithCancel(context.Background())
	defer cancel()
	results := make(chan SolveResult, len(solvers))
	launched := 0
	launch := func(i int) {
		launched++
		go func() { results <- runOne(ctx, solvers[i], fn, timeoutS) }()
	}
	launch(0)
	if q.Eager {
		launch(1)
		launch(2)
	}
	stagger := time.After(1500 * time.Millisecond)
	var all []SolveResult
	for {
		select {
		case <-stagger:
			if launched == 1 {
				launch(1)
				launch(2)
			}
		case r := <-results:
			all = append(all, r)
			if r.Status == "unsat" || r.Status == "sat" {
				r.File = fn
				return r
			}
			if launched == 1 {
				launch(1)
				launch(2)
			}
			if len(all) == len(solvers) {
				// no definitive answer
				best := all[0]
				var sb strings.Builder
				for _, a := range all {
					sb.WriteString(fmt.Sprintf("[%s: %s %.1fs] %s\n", a.Solver, a.Status, a.Time, firstLines(a.Output, 3)))
					if a.Status == "timeout" {
						best = a
					}
				}
				best.Output = sb.String()
				best.Solver = "all"
				best.File = fn
				if best.Status == "error" {
					best.Status = "unknown"
				}
				return best
			}
		}
	}
}

func firstLines(s string, n int) string {
	ls := strings.Split(s, "\n")
	if len(ls) > n {
		ls = ls[:n]
	}
	return strings.Join(ls, " | ")
}

func sanitizeFile(s string) string {
	var b strings.Builder
	for _, c := range s {
		switch {
		case c >= 'a' && c <= 'z', c >= 'A' && c <= 'Z', c >= '0' && c <= '9', c == '.', c == '-', c == '_':
			b.WriteRune(c)
		default:
			b.WriteRune('_')
		}
	}
	r := b.String()
	if len(r) > 180 {
		r = r[:180]
	}
	return r
}

// parseModel extracts constant assignments from a solver model (best effort, z3/cvc5 formats).
var modelRe = regexp.MustCompile(`\(define-fun\s+(\|[^|]*\||\S+)\s+\(\)\s+(?:Int|Bool|\(_ BitVec \d+\))\s+([^\n]*?)\)\s*$`)

func parseModel(out string) map[string]string {
	m := map[string]string{}
	lines := strings.Split(out, "\n")
	for i := 0; i < len(lines); i++ {
		l := strings.TrimSpace(lines[i])
		if strings.HasPrefix(l, "(define-fun") && !strings.HasSuffix(l, ")") && i+1 < len(lines) {
			l = l + " " + strings.TrimSpace(lines[i+1])
			i++
		}
		if mm := modelRe.FindStringSubmatch(l); mm != nil {
			name := strings.Trim(mm[1], "|")
			v := strings.TrimSpace(mm[2])
			v = strings.TrimPrefix(v, "(- ")
			neg := v != strings.TrimSpace(mm[2])
			v = strings.TrimSuffix(v, ")")
			if neg {
				v = "-" + v
			}
			m[name] = v
		}
	}
	return m
}

func sortedModel(m map[string]string) []string {
	ks := make([]string, 0, len(m))
	for k := range m {
		ks = append(ks, k)
	}
	sort.Strings(ks)
	out := make([]string, len(ks))
	for i, k := range ks {
		out[i] = k + " = " + m[k]
	}
	return out
}
