package main

// Declarative DER (X.690, definite-length, single-octet tag) predicates over byte slices, used in the
// contracts of the ASN.1 parsers.  Written from X.690 §8.1 / §10.1, not from the parsing code.
//
//   derok(s, tag)    s starts with a TLV whose identifier octet is `tag`, with a DER (minimal) definite length
//                    of at most 4 length octets, and the value fits inside s
//   dercontent(s)    the value octets of that TLV;   derrest(s)  what follows the TLV
//   derint(s)        derok(s, 0x02) and the value is a minimally encoded non-negative INTEGER
//   derintmag(s)     the magnitude octets of that INTEGER (one leading 0x00 removed when present and len > 1)

import (
	"go/ast"
	"math/big"
)

type derParts struct {
	form *Term // length octets well-formed and the whole TLV fits in s
	hdr  *Term
	dlen *Term
}

func (env *SpecEnv) derParse(s *SliceVal) derParts {
	at := func(i int64) *Term {
		return substitute(env.e.sliceElem(env.state(), s, mkInt64(i)), env.state().subst)
	}
	n := s.length
	lb := at(1)
	c := mkInt64
	short := mkLt(lb, c(128))
	be := func(k int64) *Term { // big-endian value of k length octets at s[2..2+k)
		r := c(0)
		for i := int64(0); i < k; i++ {
			r = mkAdd(mkScale(r, big.NewInt(256)), at(2+i))
		}
		return r
	}
	hdr := c(2)
	dlen := lb
	form := mkAnd(mkLe(c(2), n), short)
	longForm := tFalse
	for k := int64(4); k >= 1; k-- {
		isK := mkEq(lb, c(0x80+k))
		v := be(k)
		okK := mkAnd(isK, mkLe(c(2+k), n), mkLe(c(128), v), mkNot(mkEq(at(2), c(0))))
		longForm = mkOr(longForm, okK)
		hdr = mkIte(isK, c(2+k), hdr)
		dlen = mkIte(isK, v, dlen)
	}
	form = mkOr(form, mkAnd(mkLe(c(2), n), longForm))
	// the whole TLV fits in s, and its total length is below 2^32 (implementation limit of the parser)
	form = mkAnd(form, mkLe(mkAdd(hdr, dlen), n), mkLt(mkAdd(hdr, dlen), mkInt(new(big.Int).Lsh(big1, 32))))
	return derParts{form: form, hdr: hdr, dlen: dlen}
}

func (env *SpecEnv) derOK(s *SliceVal, tag *Term) *Term {
	if s.reg == nil {
		return tFalse
	}
	p := env.derParse(s)
	first := substitute(env.e.sliceElem(env.state(), s, mkInt64(0)), env.state().subst)
	// single-octet identifier (low-tag-number form, X.690 8.1.2.2): tag number below 31
	return mkAnd(p.form, mkEq(first, tag), mkNot(mkEq(mkModC(first, big.NewInt(32)), mkInt64(31))))
}

func (env *SpecEnv) derContent(s *SliceVal) *SliceVal {
	p := env.derParse(s)
	return &SliceVal{reg: s.reg, path: s.path, off: mkAdd(s.off, p.hdr), length: p.dlen, capacity: mkSub(s.capacity, p.hdr), elem: s.elem, backingN: s.backingN}
}

func (env *SpecEnv) derRest(s *SliceVal) *SliceVal {
	p := env.derParse(s)
	adv := mkAdd(p.hdr, p.dlen)
	return &SliceVal{reg: s.reg, path: s.path, off: mkAdd(s.off, adv), length: mkSub(s.length, adv), capacity: mkSub(s.capacity, adv), elem: s.elem, backingN: s.backingN}
}

func (env *SpecEnv) derInt(s *SliceVal) *Term {
	ok := env.derOK(s, mkInt64(2))
	cs := env.derContent(s)
	at := func(i int64) *Term {
		return substitute(env.e.sliceElem(env.state(), cs, mkInt64(i)), env.state().subst)
	}
	c := mkInt64
	minimal := mkNot(mkAnd(mkLt(c(1), cs.length), mkEq(at(0), c(0)), mkLt(at(1), c(128))))
	return mkAnd(ok, mkLe(c(1), cs.length), mkLt(at(0), c(128)), minimal)
}

func (env *SpecEnv) derIntMag(s *SliceVal) *SliceVal {
	cs := env.derContent(s)
	first := substitute(env.e.sliceElem(env.state(), cs, mkInt64(0)), env.state().subst)
	strip := mkIte(mkAnd(mkLt(mkInt64(1), cs.length), mkEq(first, mkInt64(0))), mkInt64(1), mkInt64(0))
	return &SliceVal{reg: cs.reg, path: cs.path, off: mkAdd(cs.off, strip), length: mkSub(cs.length, strip), capacity: mkSub(cs.capacity, strip), elem: cs.elem, backingN: cs.backingN}
}

func init() {
	specFuncs["derok"] = func(env *SpecEnv, n *ast.CallExpr) Value {
		return env.derOK(env.sliceOf(env.eval(n.Args[0]), n.Args[0]), env.term(n.Args[1]))
	}
	specFuncs["dercontent"] = func(env *SpecEnv, n *ast.CallExpr) Value {
		return env.derContent(env.sliceOf(env.eval(n.Args[0]), n.Args[0]))
	}
	specFuncs["derrest"] = func(env *SpecEnv, n *ast.CallExpr) Value {
		return env.derRest(env.sliceOf(env.eval(n.Args[0]), n.Args[0]))
	}
	specFuncs["derint"] = func(env *SpecEnv, n *ast.CallExpr) Value {
		return env.derInt(env.sliceOf(env.eval(n.Args[0]), n.Args[0]))
	}
	specFuncs["derintmag"] = func(env *SpecEnv, n *ast.CallExpr) Value {
		return env.derIntMag(env.sliceOf(env.eval(n.Args[0]), n.Args[0]))
	}
	// dersig(data): strict DER SEQUENCE { INTEGER r, INTEGER s } with nothing before, between or after,
	// both magnitudes 1..32 octets and values in [1, N)
	specFuncs["dersig"] = func(env *SpecEnv, n *ast.CallExpr) Value {
		data := env.sliceOf(env.eval(n.Args[0]), n.Args[0])
		if data.reg == nil {
			return tFalse
		}
		seq := env.derOK(data, mkInt64(0x30))
		inner := env.derContent(data)
		after := env.derRest(data)
		i1 := inner
		i2 := env.derRest(i1)
		tail := env.derRest(i2)
		rng := func(m *SliceVal) *Term {
			v := env.os2ipv(m)
			return mkAnd(mkLe(mkInt64(1), m.length), mkLe(m.length, mkInt64(32)), mkLe(mkInt64(1), v), mkLt(v, mkInt(bigN)))
		}
		// short-circuit structure: later conjuncts only matter when earlier ones hold
		return mkAnd(seq, mkEq(after.length, mkInt64(0)), env.derInt(i1), env.derInt(i2), mkEq(tail.length, mkInt64(0)),
			rng(env.derIntMag(i1)), rng(env.derIntMag(i2)))
	}
	specFuncs["dersig_r"] = func(env *SpecEnv, n *ast.CallExpr) Value {
		data := env.sliceOf(env.eval(n.Args[0]), n.Args[0])
		return env.os2ipv(env.derIntMag(env.derContent(data)))
	}
	specFuncs["dersig_s"] = func(env *SpecEnv, n *ast.CallExpr) Value {
		data := env.sliceOf(env.eval(n.Args[0]), n.Args[0])
		return env.os2ipv(env.derIntMag(env.derRest(env.derContent(data))))
	}
}

// os2ipv on a slice value (see spec.go "os2ipv")
func (env *SpecEnv) os2ipv(sl *SliceVal) *Term {
	if sl.length.IsConst() {
		n := sl.length.Val.Int64()
		var bs []*Term
		for i := int64(0); i < n; i++ {
			bs = append(bs, substitute(env.e.sliceElem(env.state(), sl, mkInt64(i)), env.state().subst))
		}
		return os2ipTerms(bs)
	}
	if sl.reg == nil {
		return mkInt64(0)
	}
	if !sl.reg.dyn {
		env.fail("os2ipv: symbolic length over an expanded region")
	}
	t := mkApp("os2ipn", SInt, env.e.dynArr(env.state(), sl.reg), sl.off, sl.length)
	t.Lo = big0
	return t
}
