package main

// Declarative DER (X.690, definite-length, single-octet tag) predicates over byte slices, used in the
// contracts of the ASN.1 parsers.  Written from X.690 §8.1 / §10.1, not from the parsing code.
//
//   derok(s, tag)    s starts with a TLV whose identifier octet is `tag`, with a DER (minimal) definite length
//                    of at most 4 length octets, and the value fits inside s
//   dercontent(s)    the value octets of that TLV;   derrest(s)  what follows the TLV
//   derint(s)        derok(s, 0x02) and the value is a minimally encoded non-negative INTEGER
//   derintmag(s)     the magnitude octets of that INTEGER (one leading 0x00 removed when present and len > 1)

import (
	"go/ast"
	"go/types"
	"math/big"
)

type derParts struct {
	form *Term // length octets well-formed and the whole TLV fits in s
	hdr  *Term
	dlen *Term
}

// nonNil: a nil slice is the empty byte string (over a dummy array; every DER predicate checks lengths first).
func (env *SpecEnv) nonNil(s *SliceVal) *SliceVal {
	if s.reg != nil {
		return s
	}
	if env.e.nilBytes == nil {
		r := env.e.newRegion("nil-bytes", types.Typ[types.Uint8], false)
		r.dyn = true
		r.dynLen = mkInt64(0)
		env.e.nilBytes = r
	}
	r := env.e.nilBytes
	if _, ok := env.state().mem.cells[pathKey(r.id, nil)]; !ok {
		env.state().mem.cells[pathKey(r.id, nil)] = &Term{Op: "var", Sort: SArr, Name: "nil-bytes.arr", Lo: big0, Hi: big.NewInt(255)}
	}
	return &SliceVal{reg: r, off: mkInt64(0), length: mkInt64(0), capacity: mkInt64(0), elem: types.Typ[types.Uint8], backingN: -1}
}

func (env *SpecEnv) derParse(s *SliceVal) derParts {
	s = env.nonNil(s)
	at := func(i int64) *Term {
		return env.state().sub(env.e.sliceElem(env.state(), s, mkInt64(i)))
	}
	n := s.length
	lb := at(1)
	c := mkInt64
	short := mkLt(lb, c(128))
	be := func(k int64) *Term { // big-endian value of k length octets at s[2..2+k)
		r := c(0)
		for i := int64(0); i < k; i++ {
			r = mkAdd(mkScale(r, big.NewInt(256)), at(2+i))
		}
		return r
	}
	hdr := c(2)
	dlen := lb
	form := mkAnd(mkLe(c(2), n), short)
	longForm := tFalse
	for k := int64(4); k >= 1; k-- {
		isK := mkEq(lb, c(0x80+k))
		v := be(k)
		okK := mkAnd(isK, mkLe(c(2+k), n), mkLe(c(128), v), mkNot(mkEq(at(2), c(0))))
		longForm = mkOr(longForm, okK)
		hdr = mkIte(isK, c(2+k), hdr)
		dlen = mkIte(isK, v, dlen)
	}
	form = mkOr(form, mkAnd(mkLe(c(2), n), longForm))
	// the whole TLV fits in s, and its total length is below 2^32 (implementation limit of the parser)
	form = mkAnd(form, mkLe(mkAdd(hdr, dlen), n), mkLt(mkAdd(hdr, dlen), mkInt(new(big.Int).Lsh(big1, 32))))
	return derParts{form: form, hdr: hdr, dlen: dlen}
}

func (env *SpecEnv) derOK(s *SliceVal, tag *Term) *Term {
	if s.reg == nil {
		return tFalse
	}
	p := env.derParse(s)
	first := env.state().sub(env.e.sliceElem(env.state(), s, mkInt64(0)))
	// single-octet identifier (low-tag-number form, X.690 8.1.2.2): tag number below 31
	return mkAnd(p.form, mkEq(first, tag), mkNot(mkEq(mkModC(first, big.NewInt(32)), mkInt64(31))))
}

func (env *SpecEnv) derContent(s *SliceVal) *SliceVal {
	s = env.nonNil(s)
	p := env.derParse(s)
	return &SliceVal{reg: s.reg, path: s.path, off: mkAdd(s.off, p.hdr), length: p.dlen, capacity: mkSub(s.capacity, p.hdr), elem: s.elem, backingN: s.backingN}
}

func (env *SpecEnv) derRest(s *SliceVal) *SliceVal {
	s = env.nonNil(s)
	p := env.derParse(s)
	adv := mkAdd(p.hdr, p.dlen)
	return &SliceVal{reg: s.reg, path: s.path, off: mkAdd(s.off, adv), length: mkSub(s.length, adv), capacity: mkSub(s.capacity, adv), elem: s.elem, backingN: s.backingN}
}

func (env *SpecEnv) derInt(s *SliceVal) *Term {
	s = env.nonNil(s)
	ok := env.derOK(s, mkInt64(2))
	cs := env.derContent(s)
	at := func(i int64) *Term {
		return env.state().sub(env.e.sliceElem(env.state(), cs, mkInt64(i)))
	}
	c := mkInt64
	minimal := mkNot(mkAnd(mkLt(c(1), cs.length), mkEq(at(0), c(0)), mkLt(at(1), c(128))))
	return mkAnd(ok, mkLe(c(1), cs.length), mkLt(at(0), c(128)), minimal)
}

func (env *SpecEnv) derIntMag(s *SliceVal) *SliceVal {
	s = env.nonNil(s)
	cs := env.derContent(s)
	first := env.state().sub(env.e.sliceElem(env.state(), cs, mkInt64(0)))
	strip := mkIte(mkAnd(mkLt(mkInt64(1), cs.length), mkEq(first, mkInt64(0))), mkInt64(1), mkInt64(0))
	return &SliceVal{reg: cs.reg, path: cs.path, off: mkAdd(cs.off, strip), length: mkSub(cs.length, strip), capacity: mkSub(cs.capacity, strip), elem: cs.elem, backingN: cs.backingN}
}

func init() {
	specFuncs["derok"] = func(env *SpecEnv, n *ast.CallExpr) Value {
		return env.derOK(env.sliceOf(env.eval(n.Args[0]), n.Args[0]), env.term(n.Args[1]))
	}
	specFuncs["dercontent"] = func(env *SpecEnv, n *ast.CallExpr) Value {
		return env.derContent(env.sliceOf(env.eval(n.Args[0]), n.Args[0]))
	}
	specFuncs["derrest"] = func(env *SpecEnv, n *ast.CallExpr) Value {
		return env.derRest(env.sliceOf(env.eval(n.Args[0]), n.Args[0]))
	}
	specFuncs["derint"] = func(env *SpecEnv, n *ast.CallExpr) Value {
		return env.derInt(env.sliceOf(env.eval(n.Args[0]), n.Args[0]))
	}
	specFuncs["derintmag"] = func(env *SpecEnv, n *ast.CallExpr) Value {
		return env.derIntMag(env.sliceOf(env.eval(n.Args[0]), n.Args[0]))
	}
	// dersig(data): strict DER SEQUENCE { INTEGER r, INTEGER s } with nothing before, between or after,
	// both magnitudes 1..32 octets and values in [1, N)
	specFuncs["dersig"] = func(env *SpecEnv, n *ast.CallExpr) Value {
		data := env.sliceOf(env.eval(n.Args[0]), n.Args[0])
		if data.reg == nil {
			return tFalse
		}
		seq := env.derOK(data, mkInt64(0x30))
		inner := env.derContent(data)
		after := env.derRest(data)
		i1 := inner
		i2 := env.derRest(i1)
		tail := env.derRest(i2)
		rng := func(m *SliceVal) *Term {
			v := env.os2ipv(m)
			return mkAnd(mkLe(mkInt64(1), m.length), mkLe(m.length, mkInt64(32)), mkLe(mkInt64(1), v), mkLt(v, mkInt(bigN)))
		}
		// short-circuit structure: later conjuncts only matter when earlier ones hold
		return mkAnd(seq, mkEq(after.length, mkInt64(0)), env.derInt(i1), env.derInt(i2), mkEq(tail.length, mkInt64(0)),
			rng(env.derIntMag(i1)), rng(env.derIntMag(i2)))
	}
	specFuncs["dersig_r"] = func(env *SpecEnv, n *ast.CallExpr) Value {
		data := env.sliceOf(env.eval(n.Args[0]), n.Args[0])
		return env.os2ipv(env.derIntMag(env.derContent(data)))
	}
	specFuncs["dersig_s"] = func(env *SpecEnv, n *ast.CallExpr) Value {
		data := env.sliceOf(env.eval(n.Args[0]), n.Args[0])
		return env.os2ipv(env.derIntMag(env.derRest(env.derContent(data))))
	}
}

// os2ipv on a slice value (see spec.go "os2ipv")
func (env *SpecEnv) os2ipv(sl *SliceVal) *Term {
	if sl.length.IsConst() {
		n := sl.length.Val.Int64()
		var bs []*Term
		for i := int64(0); i < n; i++ {
			bs = append(bs, env.state().sub(env.e.sliceElem(env.state(), sl, mkInt64(i))))
		}
		return os2ipTerms(bs)
	}
	if sl.reg == nil {
		return mkInt64(0)
	}
	if !sl.reg.dyn {
		env.fail("os2ipv: symbolic length over an expanded region")
	}
	t := mkApp("os2ipn", SInt, env.e.dynArr(env.state(), sl.reg), sl.off, sl.length)
	t.Lo = big0
	return t
}

// ---- BIT STRING (X.690 8.6 / 11.2: DER requires unused bits to be zero) and OBJECT IDENTIFIER ------

func (env *SpecEnv) derBits(s *SliceVal) *Term {
	s = env.nonNil(s)
	ok := env.derOK(s, mkInt64(3))
	cs := env.derContent(s)
	at := func(i *Term) *Term { return env.state().sub(env.e.sliceElem(env.state(), cs, i)) }
	c := mkInt64
	pad := at(c(0))
	last := at(mkSub(cs.length, c(1)))
	// last & (2^pad - 1) == 0 for pad in 0..7
	lowZero := tTrue
	for k := int64(7); k >= 1; k-- {
		lowZero = mkIte(mkEq(pad, c(k)), mkEq(mkModC(last, big.NewInt(1<<uint(k))), c(0)), lowZero)
	}
	return mkAnd(ok, mkLe(c(1), cs.length), mkLe(pad, c(7)),
		mkImplies(mkEq(cs.length, c(1)), mkEq(pad, c(0))),
		mkImplies(mkLt(c(1), cs.length), lowZero))
}

func (env *SpecEnv) derBitsBytes(s *SliceVal) *SliceVal {
	s = env.nonNil(s)
	cs := env.derContent(s)
	return &SliceVal{reg: cs.reg, path: cs.path, off: mkAdd(cs.off, mkInt64(1)), length: mkSub(cs.length, mkInt64(1)), capacity: mkSub(cs.capacity, mkInt64(1)), elem: cs.elem, backingN: cs.backingN}
}

func (env *SpecEnv) bytesEqualConst(s *SliceVal, enc []byte) *Term {
	cs := []*Term{mkEq(s.length, mkInt64(int64(len(enc))))}
	for i, b := range enc {
		cs = append(cs, mkEq(env.state().sub(env.e.sliceElem(env.state(), s, mkInt64(int64(i)))), mkInt64(int64(b))))
	}
	return mkAnd(cs...)
}

// oidContent: DER content octets of an OBJECT IDENTIFIER given by its components (X.690 8.19).
func oidContent(comp []int64) []byte {
	var out []byte
	b128 := func(v int64) {
		var tmp []byte
		tmp = append(tmp, byte(v&0x7f))
		v >>= 7
		for v > 0 {
			tmp = append(tmp, byte(v&0x7f)|0x80)
			v >>= 7
		}
		for i := len(tmp) - 1; i >= 0; i-- {
			out = append(out, tmp[i])
		}
	}
	b128(comp[0]*40 + comp[1])
	for _, c := range comp[2:] {
		b128(c)
	}
	return out
}

var (
	oidEcPublicKeyContent = oidContent([]int64{1, 2, 840, 10045, 2, 1})
	oidSecp256k1Content   = oidContent([]int64{1, 3, 132, 0, 10})
)

func init() {
	specFuncs["derbits"] = func(env *SpecEnv, n *ast.CallExpr) Value {
		return env.derBits(env.sliceOf(env.eval(n.Args[0]), n.Args[0]))
	}
	specFuncs["derbitsbytes"] = func(env *SpecEnv, n *ast.CallExpr) Value {
		return env.derBitsBytes(env.sliceOf(env.eval(n.Args[0]), n.Args[0]))
	}
	specFuncs["derbitspad"] = func(env *SpecEnv, n *ast.CallExpr) Value {
		cs := env.derContent(env.sliceOf(env.eval(n.Args[0]), n.Args[0]))
		return env.state().sub(env.e.sliceElem(env.state(), cs, mkInt64(0)))
	}
	// derspki(data): SubjectPublicKeyInfo ::= SEQUENCE { SEQUENCE { OID ecPublicKey, OID secp256k1 }, BIT STRING }
	// strict DER, nothing before/between/after, BIT STRING with zero unused bits.  The key octets are
	// returned by derspki_key(data).
	specFuncs["derspki"] = func(env *SpecEnv, n *ast.CallExpr) Value {
		data := env.sliceOf(env.eval(n.Args[0]), n.Args[0])
		if data.reg == nil {
			return tFalse
		}
		outer := env.derOK(data, mkInt64(0x30))
		inner := env.derContent(data)
		algo := inner
		bits := env.derRest(algo)
		ac := env.derContent(algo)
		oid1 := ac
		oid2 := env.derRest(oid1)
		return mkAnd(outer, mkEq(env.derRest(data).length, mkInt64(0)),
			env.derOK(algo, mkInt64(0x30)),
			env.derBits(bits), mkEq(env.derRest(bits).length, mkInt64(0)),
			env.derOK(oid1, mkInt64(6)), env.bytesEqualConst(env.derContent(oid1), oidEcPublicKeyContent),
			env.derOK(oid2, mkInt64(6)), env.bytesEqualConst(env.derContent(oid2), oidSecp256k1Content),
			mkEq(env.derRest(oid2).length, mkInt64(0)),
			mkEq(env.state().sub(env.e.sliceElem(env.state(), env.derContent(bits), mkInt64(0))), mkInt64(0)))
	}
	specFuncs["derspki_key"] = func(env *SpecEnv, n *ast.CallExpr) Value {
		data := env.sliceOf(env.eval(n.Args[0]), n.Args[0])
		return env.derBitsBytes(env.derRest(env.derContent(data)))
	}
}

// ---- SEC 1 v2 §2.3.4 octet-string-to-point acceptance (non-identity encodings) ------------------------
func (env *SpecEnv) sec1Compressed(k *SliceVal) *Term {
	if k.reg == nil {
		return tFalse
	}
	at := func(i int64) *Term { return env.state().sub(env.e.sliceElem(env.state(), k, mkInt64(i))) }
	x := env.os2ipv(&SliceVal{reg: k.reg, path: k.path, off: mkAdd(k.off, mkInt64(1)), length: mkInt64(32), capacity: mkInt64(32), elem: k.elem, backingN: k.backingN})
	fx := mkToRing(SFp, x)
	rhs := mkAdd(mkPow(fx, big.NewInt(3)), mkRingConst(SFp, big.NewInt(7)))
	return mkAnd(mkEq(k.length, mkInt64(33)), mkOr(mkEq(at(0), mkInt64(2)), mkEq(at(0), mkInt64(3))), mkLt(x, mkInt(bigP)), liftApp("issq", SBool, rhs))
}

func (env *SpecEnv) sec1Uncompressed(k *SliceVal) *Term {
	if k.reg == nil {
		return tFalse
	}
	at := func(i int64) *Term { return env.state().sub(env.e.sliceElem(env.state(), k, mkInt64(i))) }
	sub := func(o int64) *Term {
		return env.os2ipv(&SliceVal{reg: k.reg, path: k.path, off: mkAdd(k.off, mkInt64(o)), length: mkInt64(32), capacity: mkInt64(32), elem: k.elem, backingN: k.backingN})
	}
	x, y := sub(1), sub(33)
	fx, fy := mkToRing(SFp, x), mkToRing(SFp, y)
	on := mkEq(mkMul(fy, fy), mkAdd(mkPow(fx, big.NewInt(3)), mkRingConst(SFp, big.NewInt(7))))
	return mkAnd(mkEq(k.length, mkInt64(65)), mkEq(at(0), mkInt64(4)), mkLt(x, mkInt(bigP)), mkLt(y, mkInt(bigP)), on)
}

func init() {
	specFuncs["sec1c"] = func(env *SpecEnv, n *ast.CallExpr) Value {
		return env.sec1Compressed(env.sliceOf(env.eval(n.Args[0]), n.Args[0]))
	}
	specFuncs["sec1u"] = func(env *SpecEnv, n *ast.CallExpr) Value {
		return env.sec1Uncompressed(env.sliceOf(env.eval(n.Args[0]), n.Args[0]))
	}
}
