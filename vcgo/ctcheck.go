package main

// Secret-independence contracts (C17).
//
// A function under a `ct` contract declares which parameters are public (`public a, b`); every other parameter --
// and everything reachable from it -- is secret.  The checker is a flow-insensitive, field-insensitive (except for
// fields declared `public` in the type's spec) information-flow analysis over the function's SSA, modular in the
// usual contract style: a call is checked against the callee's labels, not its body.
//
// Obligations generated for a function (each is reported under its own name):
//   ct:branch     no If / Switch / select-free branch condition depends on a secret
//   ct:index      no array, slice or string index, slice bound, or allocation size depends on a secret
//   ct:callee     no secret flows into a parameter the callee declares public; no routine documented as variable
//                 time (name contains "Vartime"/"vartime") receives a secret; callees without a ct contract in the
//                 module are analysed by inlining their labels conservatively: all parameters secret-safe only if the
//                 callee itself is under a ct contract, otherwise the call is reported
//   ct:divide     no division or remainder with a secret operand (variable-time on common CPUs)
// A `declassify <value>: reason` clause makes the named local public from that definition on (documented leaks:
// rejecting an invalid encoding, the final published output).
//
// Results: a call result is secret if any argument (or memory reachable from an argument) is secret, unless the
// callee declares `public result`.  Memory: one taint bit per abstract object (allocation site, parameter object,
// global); a store of a secret makes the object secret; loads from a secret object are secret except for fields
// the type declares public.

import (
	"fmt"
	"go/token"
	"go/types"
	"sort"
	"strings"

	"golang.org/x/tools/go/ssa"
)

type ctState struct {
	e      *Engine
	fn     *ssa.Function
	c      *Contract
	taint  map[ssa.Value]bool
	obj    map[ssa.Value]bool // abstract objects (by root value) holding a secret
	public map[string]bool    // declassified local names
	issues map[string]string  // obligation name -> description (violations)
	checks int
	depth  int
}

// ctSafeDependency: dependency routines whose running time and memory accesses do not depend on the contents of
// their arguments (documented as constant time, or straight-line word arithmetic / block functions over a length
// that is public).  Everything else -- bytes.Equal, bytes.Compare, math/big, fmt, strings, encoding/hex ... -- must
// not receive a secret.
func ctSafeDependency(name string) bool {
	for _, p := range []string{
		"crypto/subtle.", "math/bits.", "encoding/binary.", "crypto/sha256.", "crypto/sha512.", "crypto/hmac.",
		"gitlab.com/yawning/tuplehash.", "golang.org/x/crypto/sha3.", "runtime.KeepAlive", "io.ReadFull",
		"invoke hash.Hash.", "invoke io.Reader.", "invoke io.Writer.", "bytes.Clone", "slices.Clone",
	} {
		if strings.HasPrefix(name, p) {
			return true
		}
	}
	return false
}

// ctRoot: the abstract object an address or aggregate value belongs to.
func ctRoot(v ssa.Value) ssa.Value {
	for i := 0; i < 64; i++ {
		switch x := v.(type) {
		case *ssa.FieldAddr:
			v = x.X
		case *ssa.IndexAddr:
			v = x.X
		case *ssa.Slice:
			v = x.X
		case *ssa.ChangeType:
			v = x.X
		case *ssa.Convert:
			v = x.X
		case *ssa.SliceToArrayPointer:
			v = x.X
		case *ssa.MakeInterface:
			v = x.X
		case *ssa.UnOp:
			if x.Op == token.MUL {
				// a pointer loaded from memory: the object it was loaded from stands for what it points to
				v = x.X
			} else {
				return v
			}
		case *ssa.Phi:
			return v
		default:
			return v
		}
	}
	return v
}

func (e *Engine) publicField(t types.Type, field string) bool {
	if p, ok := t.Underlying().(*types.Pointer); ok {
		t = p.Elem()
	}
	n, ok := t.(*types.Named)
	if !ok {
		return false
	}
	if ts := e.typeSpecOf(n); ts != nil {
		return ts.Public[field]
	}
	return false
}

func (e *Engine) publicType(t types.Type) bool {
	if p, ok := t.Underlying().(*types.Pointer); ok {
		t = p.Elem()
	}
	n, ok := t.(*types.Named)
	if !ok {
		return false
	}
	if ts := e.typeSpecOf(n); ts != nil {
		return ts.Public["*"]
	}
	return false
}

func (s *ctState) isSecret(v ssa.Value) bool {
	switch x := v.(type) {
	case *ssa.Const, *ssa.Function, *ssa.Builtin, nil:
		return false
	case *ssa.Global:
		return s.obj[x]
	}
	return s.taint[v]
}

// checkCT runs the analysis for one function and returns obligations.
func (e *Engine) checkCT(fn *ssa.Function, c *Contract) []*Obligation {
	s := e.ctAnalyse(fn, c, 0)
	var obls []*Obligation
	names := make([]string, 0, len(s.issues))
	for n := range s.issues {
		names = append(names, n)
	}
	sort.Strings(names)
	for _, n := range names {
		obls = append(obls, &Obligation{Name: e.curFunc + "#" + n, Kind: "ct", Func: e.curFunc, Props: c.Props, Goal: tFalse, Text: s.issues[n],
			Result: &SolveResult{Status: "sat", Solver: "flow", Backend: "flow", Output: s.issues[n]}})
	}
	obls = append(obls, &Obligation{Name: e.curFunc + "#ct:all", Kind: "ct", Func: e.curFunc, Props: c.Props, Goal: mkBool(len(names) == 0),
		Text:   fmt.Sprintf("secret-independence: %d branch / index / division / callee sites of %s checked, none depends on a secret", s.checks, fn.Name()),
		Result: &SolveResult{Status: map[bool]string{true: "unsat", false: "sat"}[len(names) == 0], Solver: "flow", Backend: "flow"}})
	return obls
}

// ctAnalyse: the information-flow analysis of one function body under the labels of c.
func (e *Engine) ctAnalyse(fn *ssa.Function, c *Contract, depth int) *ctState {
	s := &ctState{e: e, fn: fn, c: c, depth: depth, taint: map[ssa.Value]bool{}, obj: map[ssa.Value]bool{}, public: map[string]bool{}, issues: map[string]string{}}
	declassCalls := map[string]bool{}
	for _, d := range c.Declass {
		name, _, _ := strings.Cut(d.Text, ":")
		name = strings.TrimSpace(name)
		if cn, ok := strings.CutPrefix(name, "call "); ok {
			declassCalls[strings.TrimSpace(cn)] = true // results of calls to this function are public here
			continue
		}
		s.public[name] = true
	}
	for _, p := range fn.Params {
		if c.Labels[p.Name()] == "public" || e.publicType(p.Type()) {
			continue
		}
		if _, isFn := p.Type().Underlying().(*types.Signature); isFn {
			continue
		}
		if isPointerLike(p.Type()) {
			s.obj[p] = true // the address is public, the object (and whatever is read from it) is secret
			continue
		}
		s.taint[p] = true
		s.obj[p] = true
	}
	for _, fv := range fn.FreeVars {
		if c.Labels[fv.Name()] == "public" {
			continue
		}
		s.obj[fv] = true
		if !isPointerLike(fv.Type()) {
			s.taint[fv] = true
		}
	}
	// names of declassified locals: DebugRef binds expression names to values
	declassVals := map[ssa.Value]bool{}
	for _, b := range fn.Blocks {
		for _, in := range b.Instrs {
			if d, ok := in.(*ssa.DebugRef); ok && !d.IsAddr {
				if id, ok := d.Expr.(interface{ String() string }); ok && s.public[id.String()] {
					declassVals[d.X] = true
				}
			}
		}
	}
	setTaint := func(v ssa.Value, t bool) bool {
		if declassVals[v] {
			t = false
		}
		if t && !s.taint[v] {
			s.taint[v] = true
			return true
		}
		return false
	}
	taintObj := func(root ssa.Value) bool {
		if root == nil || declassVals[root] {
			return false
		}
		if _, isConst := root.(*ssa.Const); isConst {
			return false
		}
		if !s.obj[root] {
			s.obj[root] = true
			return true
		}
		return false
	}
	calleeLabels := func(call *ssa.CallCommon) (*ssa.Function, *Contract) {
		f := call.StaticCallee()
		if f == nil {
			return nil, nil
		}
		return f, e.contractFor(f)
	}
	// fixpoint
	for iter := 0; iter < 50; iter++ {
		changed := false
		for _, b := range fn.Blocks {
			for _, in := range b.Instrs {
				switch x := in.(type) {
				case *ssa.Phi:
					t := false
					for _, ed := range x.Edges {
						t = t || s.isSecret(ed)
					}
					changed = setTaint(x, t) || changed
				case *ssa.BinOp:
					changed = setTaint(x, s.isSecret(x.X) || s.isSecret(x.Y)) || changed
				case *ssa.UnOp:
					if x.Op == token.MUL {
						// load
						t := s.isSecret(x.X) || s.obj[ctRoot(x.X)]
						if fa, ok := x.X.(*ssa.FieldAddr); ok {
							st := fa.X.Type().Underlying().(*types.Pointer).Elem().Underlying().(*types.Struct)
							if e.publicField(fa.X.Type(), st.Field(fa.Field).Name()) {
								t = false
							}
						}
						if e.publicType(x.X.Type()) {
							t = false
						}
						// pointers themselves are addresses (public); what they point to keeps its object taint
						if _, isPtr := x.Type().Underlying().(*types.Pointer); isPtr {
							if t {
								changed = taintObj(x) || changed
							}
							t = false
						}
						changed = setTaint(x, t) || changed
					} else {
						changed = setTaint(x, s.isSecret(x.X)) || changed
					}
				case *ssa.Convert:
					changed = setTaint(x, s.isSecret(x.X)) || changed
				case *ssa.ChangeType:
					changed = setTaint(x, s.isSecret(x.X)) || changed
				case *ssa.ChangeInterface:
					changed = setTaint(x, s.isSecret(x.X)) || changed
				case *ssa.MakeInterface:
					changed = setTaint(x, s.isSecret(x.X)) || changed
				case *ssa.Extract:
					changed = setTaint(x, s.isSecret(x.Tuple)) || changed
				case *ssa.Field:
					t := s.isSecret(x.X)
					if st, ok := x.X.Type().Underlying().(*types.Struct); ok && e.publicField(x.X.Type(), st.Field(x.Field).Name()) {
						t = false
					}
					changed = setTaint(x, t) || changed
				case *ssa.Index:
					changed = setTaint(x, s.isSecret(x.X) || s.isSecret(x.Index)) || changed
				case *ssa.Lookup:
					changed = setTaint(x, s.isSecret(x.X) || s.isSecret(x.Index)) || changed
				case *ssa.FieldAddr, *ssa.IndexAddr, *ssa.Slice, *ssa.SliceToArrayPointer:
					// addresses are public; the object carries the taint
				case *ssa.Store:
					if s.isSecret(x.Val) || (isPointerLike(x.Val.Type()) && s.obj[ctRoot(x.Val)]) {
						changed = taintObj(ctRoot(x.Addr)) || changed
					}
				case *ssa.Call:
					cc := x.Common()
					anyArg := false
					var args []ssa.Value
					if cc.IsInvoke() {
						args = append(args, cc.Value)
					}
					args = append(args, cc.Args...)
					for _, a := range args {
						if s.isSecret(a) || (isPointerLike(a.Type()) && s.obj[ctRoot(a)]) {
							anyArg = true
						}
					}
					f, cal := calleeLabels(cc)
					resPublic := false
					if cal != nil && cal.Labels["result"] == "public" {
						resPublic = true
					}
					if b, ok := cc.Value.(*ssa.Builtin); ok && (b.Name() == "len" || b.Name() == "cap") {
						resPublic = true // lengths are public
					}
					if f != nil && declassCalls[f.Name()] {
						resPublic = true // documented declassification
					}
					if e.publicType(x.Type()) {
						resPublic = true // objects of a type declared public (public keys) carry no secrets
					}
					_ = f
					if !resPublic {
						changed = setTaint(x, anyArg) || changed
						if anyArg && isPointerLike(x.Type()) {
							changed = taintObj(x) || changed
						}
					}
					// objects passed by pointer may receive the secrets of the other arguments
					if anyArg {
						for _, a := range args {
							if isPointerLike(a.Type()) {
								if _, isFn := a.(*ssa.Function); isFn {
									continue
								}
								if e.publicType(a.Type()) {
									continue
								}
								if cal != nil && f != nil {
									// only what the callee may modify
									if !calleeMayModify(cal, f, a, cc) {
										continue
									}
								}
								changed = taintObj(ctRoot(a)) || changed
							}
						}
					}
				case *ssa.MakeSlice, *ssa.Alloc, *ssa.MakeClosure, *ssa.TypeAssert, *ssa.Range, *ssa.Next, *ssa.MakeMap:
					if ta, ok := in.(*ssa.TypeAssert); ok {
						changed = setTaint(ta, s.isSecret(ta.X)) || changed
					}
				}
			}
		}
		if !changed {
			break
		}
	}
	// obligations
	report := func(kind string, pos token.Pos, what string) {
		p := e.prog.Fset.Position(pos)
		name := fmt.Sprintf("%s@%s:%d", kind, shortFile(p.Filename), p.Line)
		s.issues[name] = what
	}
	for _, b := range fn.Blocks {
		for _, in := range b.Instrs {
			switch x := in.(type) {
			case *ssa.If:
				s.checks++
				if s.isSecret(x.Cond) {
					report("ct:branch", x.Cond.Pos(), "branch condition depends on a secret: "+x.Cond.String())
				}
			case *ssa.IndexAddr:
				s.checks++
				if s.isSecret(x.Index) {
					report("ct:index", x.Pos(), "memory index depends on a secret: "+x.String())
				}
			case *ssa.Index:
				s.checks++
				if s.isSecret(x.Index) {
					report("ct:index", x.Pos(), "index depends on a secret: "+x.String())
				}
			case *ssa.Lookup:
				s.checks++
				if s.isSecret(x.Index) {
					report("ct:index", x.Pos(), "lookup key depends on a secret: "+x.String())
				}
			case *ssa.Slice:
				s.checks++
				for _, bd := range []ssa.Value{x.Low, x.High, x.Max} {
					if bd != nil && s.isSecret(bd) {
						report("ct:index", x.Pos(), "slice bound depends on a secret: "+x.String())
					}
				}
			case *ssa.MakeSlice:
				s.checks++
				if s.isSecret(x.Len) || s.isSecret(x.Cap) {
					report("ct:index", x.Pos(), "allocation size depends on a secret")
				}
			case *ssa.BinOp:
				if x.Op == token.QUO || x.Op == token.REM {
					s.checks++
					if _, isConst := x.Y.(*ssa.Const); !isConst && (s.isSecret(x.X) || s.isSecret(x.Y)) {
						report("ct:divide", x.Pos(), "division with a secret operand: "+x.String())
					}
				}
				if x.Op == token.SHL || x.Op == token.SHR {
					// shifts by a secret amount are constant time on the supported CPUs; not reported
				}
			case *ssa.Call:
				cc := x.Common()
				f, cal := calleeLabels(cc)
				var args []ssa.Value
				args = append(args, cc.Args...)
				secretArg := func(a ssa.Value) bool {
					return s.isSecret(a) || (isPointerLike(a.Type()) && s.obj[ctRoot(a)] && !e.publicType(a.Type()))
				}
				if f != nil && strings.Contains(strings.ToLower(f.Name()), "vartime") {
					s.checks++
					for _, a := range args {
						if secretArg(a) {
							report("ct:callee", x.Pos(), "a secret is passed to the variable-time routine "+f.Name())
							break
						}
					}
					continue
				}
				if f == nil || f.Pkg == nil || !strings.HasPrefix(f.Pkg.Pkg.Path(), e.modPath) {
					// dependency and dynamic calls: a secret may only be handed to routines on the list of
					// data-independent dependency code (trusted; listed in the evidence)
					s.checks++
					name := ""
					switch {
					case f != nil && f.Pkg != nil:
						name = f.Pkg.Pkg.Path() + "." + f.Name()
					case f != nil:
						name = f.String()
					case cc.IsInvoke():
						name = "invoke " + cc.Value.Type().String() + "." + cc.Method.Name()
					default:
						name = "dynamic call " + cc.Value.String()
					}
					if _, isBuiltin := cc.Value.(*ssa.Builtin); isBuiltin || ctSafeDependency(name) {
						continue
					}
					for _, a := range args {
						if secretArg(a) {
							report("ct:callee", x.Pos(), "a secret is passed to "+name+", which is not on the list of data-independent dependency routines")
							break
						}
					}
					continue
				}
				s.checks++
				if cal == nil || !cal.CT {
					anySecret := false
					for _, a := range args {
						if secretArg(a) {
							anySecret = true
						}
					}
					if !anySecret {
						continue
					}
					if f.Blocks != nil && s.depth < 6 {
						// an uncontracted helper (or closure) of the module: analysed in place with the secrecy of the
						// actual arguments; its sites are reported under this function
						sub := &Contract{Labels: map[string]string{}, CT: true}
						for i, p := range f.Params {
							if i < len(args) && !secretArg(args[i]) {
								sub.Labels[p.Name()] = "public"
							}
						}
						for _, fv := range f.FreeVars {
							// captured variables: secret iff the captured object is
							pub := true
							if mc, ok := cc.Value.(*ssa.MakeClosure); ok {
								for bi, b := range mc.Bindings {
									if mc.Fn.(*ssa.Function).FreeVars[bi] == fv && (s.isSecret(b) || s.obj[ctRoot(b)]) {
										pub = false
									}
								}
							}
							if pub {
								sub.Labels[fv.Name()] = "public"
							}
						}
						subS := e.ctAnalyse(f, sub, s.depth+1)
						s.checks += subS.checks
						for n, d := range subS.issues {
							s.issues[n+" (in "+f.Name()+")"] = d
						}
						continue
					}
					report("ct:callee", x.Pos(), "a secret is passed to "+f.Name()+", which has no secret-independence contract")
					continue
				}
				for i, p := range f.Params {
					if i < len(args) && (cal.Labels[p.Name()] == "public") && secretArg(args[i]) {
						report("ct:callee", x.Pos(), fmt.Sprintf("a secret is passed to parameter %s of %s, which the callee declares public", p.Name(), f.Name()))
					}
				}
			}
		}
	}
	return s
}

func shortFile(f string) string {
	if i := strings.LastIndex(f, "/"); i >= 0 {
		return f[i+1:]
	}
	return f
}

func isPointerLike(t types.Type) bool {
	switch t.Underlying().(type) {
	case *types.Pointer, *types.Slice, *types.Map, *types.Interface:
		return true
	}
	return false
}

// calleeMayModify: does the callee's `modifies` clause mention the parameter this argument is bound to?
func calleeMayModify(c *Contract, f *ssa.Function, arg ssa.Value, cc *ssa.CallCommon) bool {
	idx := -1
	for i, a := range cc.Args {
		if a == arg {
			idx = i
		}
	}
	if idx < 0 || idx >= len(f.Params) {
		return true
	}
	pn := f.Params[idx].Name()
	for _, m := range c.Modifies {
		if strings.Contains(m.Text, pn) {
			return true
		}
	}
	return false
}
