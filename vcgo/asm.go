package main

// Assembly front end for C19: the two SSE2 table lookups of point_mul_table_amd64.s.
//
// The file is parsed on every run and each routine is executed by a small interpreter over *symbolic table
// contents* (every 64-bit limb of every table entry is a free variable) for each index value 0..15 (the
// precondition of both routines, shared with the portable versions, is idx <= 15).  Control flow is concrete (the
// loop counter is a constant), so a run is one straight path.  The obligations per (routine, idx):
//   - every coordinate limb written to `out` is *exactly* the limb of table entry idx-1 (for idx = 0: the
//     Montgomery form of the identity (0, 1, 0) for the projective routine; nothing selected for the affine one,
//     whose destination the portable version leaves unchanged -- see below),
//   - nothing is stored outside the coordinate bytes of `out` (the validity flag is not touched),
//   - nothing is loaded outside the table.
// The strides and offsets hard-coded in the assembly are compared with the struct layout computed by go/types
// for amd64 from the loaded package.  These limb-exact facts imply the value-level contract of the portable
// routines (`val(out.x) == tselx(tbl, idx)` ...), which is all their callers are verified against; so both
// build configurations satisfy the same contracts.
//
// Instruction subset (anything else is an engine error): MOVQ, MOVD, MOVOU, PSHUFD $0, PXOR, PAND, POR, PCMPEQL,
// INCQ, ADDQ $imm, CMPQ reg,$imm, JLE, RET.

import (
	"bufio"
	"fmt"
	"go/ast"
	"go/parser"
	"go/token"
	"go/types"
	"math/big"
	"os"
	"os/exec"
	"path/filepath"
	"regexp"
	"sort"
	"strconv"
	"strings"
)

type asmInstr struct {
	op   string
	args []string
	line int
}

type asmFunc struct {
	name   string
	instrs []asmInstr
	labels map[string]int
}

func parseAsmFile(path string) (map[string]*asmFunc, error) {
	f, err := os.Open(path)
	if err != nil {
		return nil, err
	}
	defer f.Close()
	out := map[string]*asmFunc{}
	var cur *asmFunc
	textRe := regexp.MustCompile(`^TEXT\s+·(\w+)\(SB\)`)
	sc := bufio.NewScanner(f)
	ln := 0
	for sc.Scan() {
		ln++
		l := sc.Text()
		if i := strings.Index(l, "//"); i >= 0 {
			l = l[:i]
		}
		l = strings.TrimSpace(l)
		if l == "" || strings.HasPrefix(l, "#") {
			continue
		}
		if m := textRe.FindStringSubmatch(l); m != nil {
			cur = &asmFunc{name: m[1], labels: map[string]int{}}
			out[m[1]] = cur
			continue
		}
		if cur == nil {
			continue
		}
		if strings.HasSuffix(l, ":") {
			cur.labels[strings.TrimSuffix(l, ":")] = len(cur.instrs)
			continue
		}
		f := strings.Fields(l)
		op := f[0]
		rest := strings.TrimSpace(strings.TrimPrefix(l, op))
		var args []string
		for _, a := range strings.Split(rest, ",") {
			if a = strings.TrimSpace(a); a != "" {
				args = append(args, a)
			}
		}
		cur.instrs = append(cur.instrs, asmInstr{op: op, args: args, line: ln})
	}
	return out, sc.Err()
}

type asmReg struct {
	isPtr bool
	base  string // "tbl" | "out"
	off   int64
	val   uint64 // concrete value when !isPtr
}

type asmXmm [2]*Term // 64-bit halves, low first

type asmRun struct {
	fn     *asmFunc
	regs   map[string]asmReg
	xmm    map[string]asmXmm
	idx    uint64
	cmp    int // result of the last CMPQ (-1, 0, 1)
	stores map[int64]*Term
	loads  map[int64]bool
	cell   func(base string, off int64) *Term
	err    string
	steps  int
	trace  []string // executed instruction addresses and memory operand addresses (C17: must not depend on idx)
}

var maxU64Big = new(big.Int).Sub(new(big.Int).Lsh(big1, 64), big1)

func asmConst(v uint64) *Term { return mkUint64(v) }

func (r *asmRun) fail(in asmInstr, format string, a ...interface{}) {
	if r.err == "" {
		r.err = fmt.Sprintf("line %d (%s %s): %s", in.line, in.op, strings.Join(in.args, ", "), fmt.Sprintf(format, a...))
	}
}

var memOpRe = regexp.MustCompile(`^(-?\d+)?\((\w+)\)$`)
var fpArgRe = regexp.MustCompile(`^(\w+)\+(\d+)\(FP\)$`)

func (r *asmRun) half(t *Term) (uint64, bool) {
	if t.IsConst() {
		return t.Val.Uint64(), true
	}
	return 0, false
}

// and64 / or64 with the simplifications that suffice when one operand is a constant mask.
func (r *asmRun) and64(in asmInstr, a, b *Term) *Term {
	if av, ok := r.half(a); ok {
		if bv, ok := r.half(b); ok {
			return asmConst(av & bv)
		}
		a, b = b, a
	}
	if bv, ok := r.half(b); ok {
		switch bv {
		case 0:
			return asmConst(0)
		case ^uint64(0):
			return a
		}
	}
	r.fail(in, "AND of two non-constant operands is outside the modelled subset")
	return asmConst(0)
}

func (r *asmRun) or64(in asmInstr, a, b *Term) *Term {
	if av, ok := r.half(a); ok {
		if bv, ok := r.half(b); ok {
			return asmConst(av | bv)
		}
		if av == 0 {
			return b
		}
	}
	if bv, ok := r.half(b); ok && bv == 0 {
		return a
	}
	r.fail(in, "OR of two non-zero symbolic operands is outside the modelled subset")
	return asmConst(0)
}

func (r *asmRun) exec() {
	pc := 0
	for r.err == "" {
		if pc >= len(r.fn.instrs) {
			r.err = "fell off the end of the routine"
			return
		}
		r.steps++
		if r.steps > 10000 {
			r.err = "step limit exceeded"
			return
		}
		in := r.fn.instrs[pc]
		r.trace = append(r.trace, fmt.Sprintf("pc=%d %s", pc, in.op))
		pc++
		a := in.args
		switch in.op {
		case "RET":
			return
		case "MOVQ", "MOVD":
			if len(a) != 2 {
				r.fail(in, "two operands expected")
				return
			}
			src, dst := a[0], a[1]
			switch {
			case fpArgRe.MatchString(src):
				m := fpArgRe.FindStringSubmatch(src)
				switch m[1] {
				case "idx":
					r.regs[dst] = asmReg{val: r.idx}
				case "tbl", "out":
					r.regs[dst] = asmReg{isPtr: true, base: m[1]}
				default:
					r.fail(in, "unknown argument %s", m[1])
				}
			case strings.HasPrefix(src, "$"):
				v, err := strconv.ParseUint(strings.TrimPrefix(src, "$"), 0, 64)
				if err != nil {
					r.fail(in, "bad immediate")
					return
				}
				r.regs[dst] = asmReg{val: v}
			case strings.HasPrefix(dst, "X"):
				g, ok := r.regs[src]
				if !ok || g.isPtr {
					r.fail(in, "source register is not a scalar")
					return
				}
				v := g.val
				if in.op == "MOVD" {
					v &= 0xffffffff
				}
				r.xmm[dst] = asmXmm{asmConst(v), asmConst(0)}
			default:
				r.fail(in, "operand form outside the modelled subset")
			}
		case "PSHUFD":
			if len(a) != 3 || a[0] != "$0x00" {
				r.fail(in, "only PSHUFD $0x00 is modelled")
				return
			}
			lo, ok := r.half(r.xmm[a[1]][0])
			if !ok {
				r.fail(in, "broadcast of a symbolic lane")
				return
			}
			l := lo & 0xffffffff
			w := l | l<<32
			r.xmm[a[2]] = asmXmm{asmConst(w), asmConst(w)}
		case "PXOR":
			if a[0] == a[1] {
				r.xmm[a[1]] = asmXmm{asmConst(0), asmConst(0)}
			} else {
				r.fail(in, "only the zeroing idiom PXOR X, X is modelled")
			}
		case "PCMPEQL":
			x, y := r.xmm[a[0]], r.xmm[a[1]]
			var res asmXmm
			for h := 0; h < 2; h++ {
				xv, ok1 := r.half(x[h])
				yv, ok2 := r.half(y[h])
				if !ok1 || !ok2 {
					r.fail(in, "comparison of symbolic lanes")
					return
				}
				var o uint64
				if uint32(xv) == uint32(yv) {
					o |= 0xffffffff
				}
				if uint32(xv>>32) == uint32(yv>>32) {
					o |= 0xffffffff << 32
				}
				res[h] = asmConst(o)
			}
			r.xmm[a[1]] = res
		case "PAND", "POR":
			x, y := r.xmm[a[0]], r.xmm[a[1]]
			var res asmXmm
			for h := 0; h < 2; h++ {
				if in.op == "PAND" {
					res[h] = r.and64(in, x[h], y[h])
				} else {
					res[h] = r.or64(in, x[h], y[h])
				}
			}
			r.xmm[a[1]] = res
		case "MOVOU":
			if m := memOpRe.FindStringSubmatch(a[0]); m != nil { // load
				g, ok := r.regs[m[2]]
				if !ok || !g.isPtr {
					r.fail(in, "load through a non-pointer")
					return
				}
				off := g.off
				if m[1] != "" {
					d, _ := strconv.ParseInt(m[1], 10, 64)
					off += d
				}
				if g.base != "tbl" {
					r.fail(in, "load from %s", g.base)
					return
				}
				r.loads[off] = true
				r.loads[off+8] = true
				r.trace = append(r.trace, fmt.Sprintf("load %s+%d", g.base, off))
				r.xmm[a[1]] = asmXmm{r.cell(g.base, off), r.cell(g.base, off+8)}
			} else if m := memOpRe.FindStringSubmatch(a[1]); m != nil { // store
				g, ok := r.regs[m[2]]
				if !ok || !g.isPtr || g.base != "out" {
					r.fail(in, "store through a register that does not point into out")
					return
				}
				off := g.off
				if m[1] != "" {
					d, _ := strconv.ParseInt(m[1], 10, 64)
					off += d
				}
				x := r.xmm[a[0]]
				r.trace = append(r.trace, fmt.Sprintf("store %s+%d", g.base, off))
				r.stores[off] = x[0]
				r.stores[off+8] = x[1]
			} else {
				r.fail(in, "MOVOU between registers is outside the modelled subset")
			}
		case "INCQ":
			g := r.regs[a[0]]
			if g.isPtr {
				g.off++
			} else {
				g.val++
			}
			r.regs[a[0]] = g
		case "ADDQ":
			v, err := strconv.ParseInt(strings.TrimPrefix(a[0], "$"), 0, 64)
			if err != nil || !strings.HasPrefix(a[0], "$") {
				r.fail(in, "only ADDQ $imm, reg is modelled")
				return
			}
			g := r.regs[a[1]]
			if g.isPtr {
				g.off += v
			} else {
				g.val += uint64(v)
			}
			r.regs[a[1]] = g
		case "CMPQ":
			g := r.regs[a[0]]
			v, err := strconv.ParseInt(strings.TrimPrefix(a[1], "$"), 0, 64)
			if g.isPtr || err != nil {
				r.fail(in, "only CMPQ scalar, $imm is modelled")
				return
			}
			switch {
			case int64(g.val) < v:
				r.cmp = -1
			case int64(g.val) == v:
				r.cmp = 0
			default:
				r.cmp = 1
			}
		case "TESTQ":
			// flags of (a AND b) for two scalar registers holding concrete values (the index is concrete in each run):
			// ZF -> cmp = 0, SF -> cmp = -1 (OF is cleared, so JLE is taken iff ZF or SF)
			if len(a) != 2 {
				r.fail(in, "two operands expected")
				return
			}
			g0, ok0 := r.regs[a[0]]
			g1, ok1 := r.regs[a[1]]
			if !ok0 || !ok1 || g0.isPtr || g1.isPtr {
				r.fail(in, "only TESTQ of two scalar registers is modelled")
				return
			}
			switch v := g0.val & g1.val; {
			case v == 0:
				r.cmp = 0
			case int64(v) < 0:
				r.cmp = -1
			default:
				r.cmp = 1
			}
		case "JLE", "JEQ", "JE", "JZ", "JNE", "JNZ", "JMP":
			t, ok := r.fn.labels[a[0]]
			if !ok {
				r.fail(in, "unknown label")
				return
			}
			taken := false
			switch in.op {
			case "JLE":
				taken = r.cmp <= 0
			case "JEQ", "JE", "JZ":
				taken = r.cmp == 0
			case "JNE", "JNZ":
				taken = r.cmp != 0
			case "JMP":
				taken = true
			}
			if taken {
				pc = t
			}
		default:
			r.fail(in, "instruction outside the modelled subset")
		}
	}
}

// asmObligations builds the C19 obligations.
func (e *Engine) asmObligations(repo string, lr *loadResult) ([]*Obligation, []string) {
	var obls []*Obligation
	var errs []string
	add := func(name, text string, ok bool, detail string) {
		st := "unsat"
		if !ok {
			st = "sat"
		}
		obls = append(obls, &Obligation{Name: "asm." + name, Kind: "asm", Func: "point_mul_table_amd64.s", Props: []string{"C19"}, Goal: mkBool(ok), Text: text,
			Result: &SolveResult{Status: st, Solver: "syntactic", Backend: "syntactic", Output: detail}})
	}
	fns, err := parseAsmFile(filepath.Join(repo, "point_mul_table_amd64.s"))
	if err != nil {
		return nil, []string{"cannot read the assembly file: " + err.Error()}
	}
	// struct layout from go/types (amd64)
	var pkg *types.Package
	for _, p := range lr.pkgs {
		if p.Pkg != nil && p.Pkg.Path() == e.modPath {
			pkg = p.Pkg
		}
	}
	if pkg == nil {
		return nil, []string{"root package not loaded"}
	}
	sizes := types.SizesFor("gc", "amd64")
	layout := func(tn string) (size int64, offs map[string]int64, ok bool) {
		o := pkg.Scope().Lookup(tn)
		if o == nil {
			return 0, nil, false
		}
		st, ok := o.Type().Underlying().(*types.Struct)
		if !ok {
			return 0, nil, false
		}
		var fs []*types.Var
		for i := 0; i < st.NumFields(); i++ {
			fs = append(fs, st.Field(i))
		}
		os_ := sizes.Offsetsof(fs)
		offs = map[string]int64{}
		for i, f := range fs {
			offs[f.Name()] = os_[i]
		}
		return sizes.Sizeof(o.Type()), offs, true
	}
	type routine struct {
		name, elemType string
		coords         []string
		stride         int64
		identity       map[int64]uint64 // expected out limbs for idx = 0 (nil: nothing selected, all zero)
	}
	routines := []routine{
		{"lookupProjectivePoint", "Point", []string{"x", "y", "z"}, 0x68, map[int64]uint64{32: 0x00000001000003d1}},
		{"lookupAffinePoint", "affinePoint", []string{"x", "y"}, 0x40, nil},
	}
	for _, rt := range routines {
		fn, ok := fns[rt.name]
		if !ok {
			errs = append(errs, "assembly routine "+rt.name+" not found")
			continue
		}
		size, offs, ok := layout(rt.elemType)
		if !ok {
			errs = append(errs, "type "+rt.elemType+" not found")
			continue
		}
		layoutOK := size == rt.stride
		for ci, c := range rt.coords {
			if offs[c] != int64(32*ci) {
				layoutOK = false
			}
		}
		add(rt.name+".layout", fmt.Sprintf("struct %s has size %#x and coordinates at offsets 0, 32, ... (the constants hard-coded in the assembly)", rt.elemType, rt.stride), layoutOK,
			fmt.Sprintf("go/types: size %d, offsets %v", size, offs))
		ncoordBytes := int64(32 * len(rt.coords))
		var trace0 []string
		traceOK, traceDetail, traceRuns := true, "", 0
		for idx := uint64(0); idx <= 15; idx++ {
			cell := func(base string, off int64) *Term {
				ent, in := off/rt.stride, off%rt.stride
				return mkIntVarR(fmt.Sprintf("%s[%d]+%d", base, ent, in), big0, maxU64Big)
			}
			run := &asmRun{fn: fn, regs: map[string]asmReg{}, xmm: map[string]asmXmm{}, idx: idx, stores: map[int64]*Term{}, loads: map[int64]bool{}, cell: cell}
			for i := 0; i < 16; i++ {
				run.xmm[fmt.Sprintf("X%d", i)] = asmXmm{mkIntVarR(fmt.Sprintf("X%d.lo!entry", i), big0, maxU64Big), mkIntVarR(fmt.Sprintf("X%d.hi!entry", i), big0, maxU64Big)}
			}
			run.exec()
			label := fmt.Sprintf("%s/idx=%d", rt.name, idx)
			if run.err != "" {
				errs = append(errs, "asm "+label+": "+run.err)
				continue
			}
			traceRuns++
			if idx == 0 {
				trace0 = run.trace
			} else if traceOK {
				if len(run.trace) != len(trace0) {
					traceOK, traceDetail = false, fmt.Sprintf("idx=%d executes %d trace events, idx=0 executes %d", idx, len(run.trace), len(trace0))
				} else {
					for i := range trace0 {
						if trace0[i] != run.trace[i] {
							traceOK, traceDetail = false, fmt.Sprintf("event %d: idx=0 `%s`, idx=%d `%s`", i, trace0[i], idx, run.trace[i])
							break
						}
					}
				}
			}
			okAll, detail := true, ""
			for off := int64(0); off < ncoordBytes; off += 8 {
				got, written := run.stores[off]
				var want *Term
				if idx == 0 {
					want = asmConst(rt.identity[off])
				} else {
					want = cell("tbl", int64(idx-1)*rt.stride+off)
				}
				if !written || got.Key() != want.Key() {
					okAll = false
					g := "<not written>"
					if written {
						g = got.Key()
					}
					detail += fmt.Sprintf("out+%d: got %s want %s; ", off, g, want.Key())
				}
			}
			add(label+".value", fmt.Sprintf("out coordinates are exactly those of table entry %d (idx = 0: %s)", int64(idx)-1, map[bool]string{true: "the identity (0, R mod P, 0)", false: "all zero, the caller never uses idx = 0 of the affine table"}[rt.identity != nil]), okAll, detail)
			frameOK, fdetail := true, ""
			for off := range run.stores {
				if off < 0 || off >= ncoordBytes {
					frameOK = false
					fdetail += fmt.Sprintf("store at out+%d; ", off)
				}
			}
			for off := range run.loads {
				if off < 0 || off+8 > 15*rt.stride {
					frameOK = false
					fdetail += fmt.Sprintf("load at tbl+%d; ", off)
				}
			}
			add(label+".frame", "stores only to the coordinate bytes of out, loads only from the 15 table entries", frameOK, fdetail)
		}
		// C17 for the assembly build: the sequence of executed instructions and of load / store addresses is the
		// same for every index 0..15 (table contents are symbolic and never reach an address or a branch: the
		// interpreter rejects symbolic addresses and symbolic comparison operands).
		if traceRuns == 16 {
			add(rt.name+".ct-trace", fmt.Sprintf("the executed instruction sequence and every load / store address are identical for idx = 0..15 (%d events); no address or branch depends on the table contents", len(trace0)), traceOK && len(trace0) > 0, traceDetail)
			obls[len(obls)-1].Props = []string{"C17"}
		}
	}
	return obls, errs
}

// buildConfigObligation (C19, C17): the two build configurations differ only in the two table lookups.  Every non-test
// source file of the module whose inclusion depends on a build tag, GOOS or GOARCH (a //go:build line other than
// `verif` / `ignore`, or a _GOOS / _GOARCH file name suffix) must be one of the three lookup files; the amd64 Go file may
// only declare the two body-less lookups, the portable file may only define those two functions, the assembly file
// only those two TEXT symbols; and no file consults runtime.GOARCH / runtime.GOOS or a CPU-feature package.
func buildConfigObligation(repo string) *Obligation {
	allowed := map[string]bool{"point_mul_table_amd64.go": true, "point_mul_table_amd64.s": true, "point_mul_table_ref.go": true}
	lookups := map[string]bool{"lookupProjectivePoint": true, "lookupAffinePoint": true}
	var bad []string
	nfiles := 0
	archs := map[string]bool{}
	for _, a := range strings.Fields("386 amd64 arm arm64 loong64 mips mips64 mips64le mipsle ppc64 ppc64le riscv64 s390x wasm aix android darwin dragonfly freebsd illumos ios js linux netbsd openbsd plan9 solaris wasip1 windows") {
		archs[a] = true
	}
	filepath.Walk(repo, func(path string, info os.FileInfo, err error) error {
		if err != nil {
			return nil
		}
		rel, _ := filepath.Rel(repo, path)
		if info.IsDir() {
			if strings.HasPrefix(info.Name(), ".") && rel != "." || rel == filepath.Join("internal", "asm") || info.Name() == "testdata" {
				return filepath.SkipDir
			}
			return nil
		}
		name := info.Name()
		isGo, isAsm := strings.HasSuffix(name, ".go"), strings.HasSuffix(name, ".s") || strings.HasSuffix(name, ".S")
		if !isGo && !isAsm {
			if strings.HasSuffix(name, ".c") || strings.HasSuffix(name, ".h") || strings.HasSuffix(name, ".syso") {
				bad = append(bad, rel+": non-Go source file")
			}
			return nil
		}
		if strings.HasSuffix(name, "_test.go") {
			return nil
		}
		nfiles++
		data, err := os.ReadFile(path)
		if err != nil {
			bad = append(bad, rel+": "+err.Error())
			return nil
		}
		constrained := ""
		for _, line := range strings.Split(string(data), "\n") {
			t := strings.TrimSpace(line)
			if strings.HasPrefix(t, "//go:build ") {
				expr := strings.TrimSpace(strings.TrimPrefix(t, "//go:build "))
				if expr != "verif" && expr != "ignore" {
					constrained = "//go:build " + expr
				} else {
					constrained = "-" // excluded from both builds (ignore) or comment-only hook (verif)
				}
			}
			if strings.HasPrefix(t, "// +build ") {
				constrained = t
			}
			if strings.HasPrefix(t, "package ") || strings.HasPrefix(t, "TEXT") {
				break
			}
		}
		if constrained == "-" {
			return nil
		}
		base := strings.TrimSuffix(strings.TrimSuffix(name, ".go"), ".s")
		parts := strings.Split(base, "_")
		if n := len(parts); n >= 2 && archs[parts[n-1]] {
			constrained += " file name suffix _" + parts[n-1]
		}
		if isAsm && constrained == "" {
			constrained = "assembly file"
		}
		if constrained != "" && !(allowed[name] && filepath.Dir(rel) == ".") {
			bad = append(bad, rel+": build-dependent ("+strings.TrimSpace(constrained)+")")
		}
		if isGo {
			fset := token.NewFileSet()
			f, err := parser.ParseFile(fset, path, data, 0)
			if err != nil {
				bad = append(bad, rel+": "+err.Error())
				return nil
			}
			for _, im := range f.Imports {
				p := strings.Trim(im.Path.Value, `"`)
				if strings.HasSuffix(p, "/cpu") || p == "internal/cpu" {
					bad = append(bad, rel+": imports "+p)
				}
			}
			ast.Inspect(f, func(n ast.Node) bool {
				if se, ok := n.(*ast.SelectorExpr); ok {
					if id, ok := se.X.(*ast.Ident); ok && id.Name == "runtime" && (se.Sel.Name == "GOARCH" || se.Sel.Name == "GOOS") {
						bad = append(bad, rel+": consults runtime."+se.Sel.Name)
					}
				}
				return true
			})
			if allowed[name] && filepath.Dir(rel) == "." {
				for _, d := range f.Decls {
					switch d := d.(type) {
					case *ast.FuncDecl:
						if d.Recv != nil || !lookups[d.Name.Name] {
							bad = append(bad, rel+": defines "+d.Name.Name+" (only the two lookups may be build-dependent)")
						}
						if name == "point_mul_table_amd64.go" && d.Body != nil {
							bad = append(bad, rel+": "+d.Name.Name+" has a Go body in the assembly build")
						}
					case *ast.GenDecl:
						if d.Tok != token.IMPORT {
							bad = append(bad, rel+": declares "+d.Tok.String()+" (only the two lookups may be build-dependent)")
						}
					}
				}
			}
		}
		if isAsm && allowed[name] {
			fns, err := parseAsmFile(path)
			if err != nil {
				bad = append(bad, rel+": "+err.Error())
			}
			for n := range fns {
				if !lookups[n] {
					bad = append(bad, rel+": defines TEXT "+n)
				}
			}
		}
		return nil
	})
	sort.Strings(bad)
	st := "unsat"
	if len(bad) > 0 || nfiles == 0 {
		st = "sat"
	}
	return &Obligation{Name: "module#build-configurations", Kind: "ground", Func: "module", Goal: mkBool(st == "unsat"), Props: []string{"C19", "C17"},
		Text:   fmt.Sprintf("the assembly and purego builds differ only in the bodies of lookupProjectivePoint / lookupAffinePoint (%d non-test source files scanned: build constraints, file name suffixes, runtime.GOARCH / GOOS, CPU-feature packages)", nfiles),
		Result: &SolveResult{Status: st, Solver: "ground", Backend: "ground", Output: strings.Join(bad, "\n")}}
}

var asmObligationRe = regexp.MustCompile(`^asm\.(lookupProjectivePoint|lookupAffinePoint)/idx=(\d+)\.(value|frame)$`)

// asmReplay runs the real assembly routine (default build, no purego) on a table whose limbs are all distinct
// and a destination pre-filled with a sentinel, and compares the result with the shared contract of the two
// lookups: coordinates of entry idx-1 (idx = 0: the identity (0, R mod P, 0) resp. all zero), every other
// byte of the destination untouched.
func asmReplay(repo, routine string, idx int) *replayResult {
	rr := &replayResult{Attempted: true}
	logf := func(f string, a ...interface{}) { rr.Log = append(rr.Log, fmt.Sprintf(f, a...)) }
	tblT, outT, ncoord := "projectivePointMultTable", "Point", 3
	if routine == "lookupAffinePoint" {
		tblT, outT, ncoord = "affinePointMultTable", "affinePoint", 2
	}
	src := fmt.Sprintf(`package secp256k1

import (
	"fmt"
	"os"
	"testing"
	"unsafe"
)

func TestVerifAsmReplay(t *testing.T) {
	out, err := os.Create(os.Getenv("VERIF_REPLAY_OUT"))
	if err != nil {
		t.Fatal(err)
	}
	defer out.Close()
	var tbl %s
	var dst %s
	tb := unsafe.Slice((*uint64)(unsafe.Pointer(&tbl)), int(unsafe.Sizeof(tbl))/8)
	for i := range tb {
		tb[i] = 0x0101010101010101*uint64(i%%251+1) ^ uint64(i)<<32
	}
	db := unsafe.Slice((*byte)(unsafe.Pointer(&dst)), int(unsafe.Sizeof(dst)))
	for i := range db {
		db[i] = 0xa5
	}
	idx := %d
	%s(&tbl, &dst, uint64(idx))
	esz := int(unsafe.Sizeof(tbl[0]))
	for i := range db {
		want := byte(0xa5)
		if i < %d {
			if idx == 0 {
				want = 0
				if %d == 3 && i >= 32 && i < 40 {
					want = byte(uint64(0x00000001000003d1) >> (8 * uint(i-32)))
				}
			} else {
				eb := unsafe.Slice((*byte)(unsafe.Pointer(&tbl[idx-1])), esz)
				want = eb[i]
			}
		}
		if db[i] != want {
			fmt.Fprintf(out, "MISMATCH byte %%d of the destination: got %%#02x want %%#02x\n", i, db[i], want)
		}
	}
	fmt.Fprintln(out, "DONE")
}
`, tblT, outT, idx, routine, 32*ncoord, ncoord)
	tmp, err := os.MkdirTemp("", "vcgo-asmreplay-")
	if err != nil {
		logf("harness: %v", err)
		return rr
	}
	defer os.RemoveAll(tmp)
	testFile := filepath.Join(tmp, "zz_verif_asmreplay_test.go")
	_ = os.WriteFile(testFile, []byte(src), 0o644)
	ovFile := filepath.Join(tmp, "ov.json")
	_ = os.WriteFile(ovFile, []byte(fmt.Sprintf(`{"Replace": {%q: %q}}`, filepath.Join(repo, "zz_verif_asmreplay_test.go"), testFile)), 0o644)
	outFile := filepath.Join(tmp, "out.txt")
	cmd := exec.Command("go", "test", "-overlay", ovFile, "-vet=off", "-count=1", "-timeout", "60s", "-run", "^TestVerifAsmReplay$", ".")
	cmd.Dir = repo
	cmd.Env = append(os.Environ(), "GOFLAGS=-mod=mod", "GOPROXY=off", "GOSUMDB=off", "GOTOOLCHAIN=local", "GOARCH=amd64", "VERIF_REPLAY_OUT="+outFile)
	if b, err := cmd.CombinedOutput(); err != nil {
		logf("replay test did not run: %v: %s", err, trunc(string(b), 400))
		rr.Attempted = false
		return rr
	}
	data, _ := os.ReadFile(outFile)
	rr.Input = fmt.Sprintf("%s(&tbl, &dst, %d) in the default (assembly) build; table limb i = 0x0101010101010101*(i%%251+1) ^ i<<32, destination pre-filled with 0xa5", routine, idx)
	rr.Expected = "coordinate bytes of the destination = those of table entry idx-1 (idx = 0: the identity (0, R mod P, 0) / zero), every other byte untouched"
	var mm []string
	for _, ln := range strings.Split(string(data), "\n") {
		if strings.HasPrefix(ln, "MISMATCH ") {
			mm = append(mm, strings.TrimPrefix(ln, "MISMATCH "))
		}
	}
	if !strings.Contains(string(data), "DONE") {
		logf("the replay test did not complete")
		rr.Attempted = false
		return rr
	}
	if len(mm) > 0 {
		rr.Failing = true
		if len(mm) > 6 {
			mm = append(mm[:6], fmt.Sprintf("... %d more", len(mm)-6))
		}
		rr.Observed = strings.Join(mm, "; ")
		logf("the real assembly routine violates the contract on this input")
	} else {
		rr.Observed = "destination as specified"
		logf("the real assembly routine meets the contract on this input: not a failing input")
	}
	return rr
}
