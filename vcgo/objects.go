package main

// Opaque stateful objects: byte streams (io.Reader) and hash / XOF objects of dependency packages.
//
// Such an object is modelled by one ghost cell, its *abstract state* (an integer-sorted term built from
// uninterpreted functions).  The model is the usual one for streams and sponge/Merkle-Damgaard objects:
//
//   reader    state s          a successful read of n bytes returns the bytes  rdout(s)[0..n)  and moves
//                              to  rdnext(s, n);  (a nondeterministic source is the special case in which
//                              the initial state is unknown - the state then stands for the unread tape)
//   hash/xof  state s          Write(b) moves to  absorb(s, bstr(b));  a byte string is identified by the
//                              pair (length, big-endian integer value), which determines it uniquely
//
// Nothing is assumed about rdout / rdnext / absorb / the initial-state functions: they are uninterpreted.
// What is assumed (and listed in the evidence) is that the dependency objects *are* functions of the
// bytes written to them in order, write nothing but the buffers passed, and retain no buffer.

import (
	"go/ast"
	"go/types"
	"math/big"
	"strings"

	"golang.org/x/tools/go/ssa"
)

// objID returns the ghost object behind a reader / hash value.
func (e *Engine) objID(v Value) (string, bool) {
	switch x := v.(type) {
	case *IfaceVal:
		if x.val != nil {
			return e.objID(x.val)
		}
		if x.obj != "" {
			return "o:" + x.obj, true
		}
	case *PtrVal:
		if x.reg != nil && !x.null {
			return "r:" + itoa(x.reg.id), true
		}
	case *RefVal:
		if x.reg != nil {
			return "r:" + itoa(x.reg.id), true
		}
	}
	return "", false
}

func itoa(i int) string { return big.NewInt(int64(i)).String() }

func (s *State) objState(id string) *Term {
	if v, ok := s.ghost["state:"+id]; ok {
		return v.(*Term)
	}
	// unknown initial state; the name depends on the object only, so that old() and the current state agree
	return mkIntVarR("state0$"+id, nil, nil)
}

func (s *State) setObjState(id string, t *Term) { s.ghost["state:"+id] = t }

// bstr: the abstract value of a byte string.
func (env *SpecEnv) bstr(sl *SliceVal) *Term {
	return mkApp("bstr", SInt, sl.length, env.os2ipv(sl))
}

func rdoutArr(s *Term) *Term {
	t := mkApp("rdout", SArr, s)
	t.Lo, t.Hi = big0, big.NewInt(255)
	return t
}

// readInto models a read of exactly len(buf) bytes from the object `id`.  ok=true: the bytes are the
// stream's next bytes; ok=false: the buffer and the stream state are unknown afterwards.
func (e *Engine) readInto(st *State, id string, buf *SliceVal, ok bool, tag string) {
	if !ok {
		if buf.reg != nil {
			e.havocDyn(st, buf, tag)
		}
		st.setObjState(id, mkIntVarR(tag+".state", nil, nil))
		return
	}
	s0 := st.objState(id)
	out := rdoutArr(s0)
	if buf.reg != nil {
		if buf.length.IsConst() && (!buf.reg.dyn) && buf.off.IsConst() {
			for i := int64(0); i < buf.length.Val.Int64(); i++ {
				e.sliceElemStore(st, buf, mkInt64(i), mkSelect(out, mkInt64(i)))
			}
		} else if buf.reg.dyn && buf.off.IsConst() && buf.off.Val.Sign() == 0 && buf.length.Key() == buf.reg.dynLen.Key() {
			st.mem.cells[pathKey(buf.reg.id, nil)] = out
		} else if buf.length.IsConst() {
			for i := int64(0); i < buf.length.Val.Int64(); i++ {
				e.sliceElemStore(st, buf, mkInt64(i), mkSelect(out, mkInt64(i)))
			}
		} else {
			e.havocDyn(st, buf, tag) // contents not tracked for symbolic windows
		}
	}
	st.setObjState(id, mkApp("rdnext", SInt, s0, buf.length))
}

func init() {
	intrinsicDoc["io.ReadFull"] = "io.Reader contract: the reader is a byte stream (ghost state s; a full read of n bytes returns rdout(s)[0..n) and moves to rdnext(s,n), both uninterpreted); it writes only into buf and retains nothing; returns (len(buf), nil) or (n < len(buf), non-nil error); a nil reader panics (obligation at the call site)"
	intrinsics["io.ReadFull"] = func(e *Engine, st *State, fr *Frame, args []Value, in *ssa.Call) Value {
		e.usedIntrinsic("io.ReadFull")
		rd, _ := args[0].(*IfaceVal)
		buf := args[1].(*SliceVal)
		if rd == nil || rd.null == nil {
			e.fail("io.ReadFull: reader is not an interface value")
		}
		e.addObligation(st, fr, "safety", "io.ReadFull.reader", mkNot(rd.null), "the reader passed to io.ReadFull is not nil")
		id, okID := e.objID(rd)
		if !okID {
			e.fail("io.ReadFull: reader without an object identity")
		}
		if dt := rd.dyn; dt != nil {
			if fn := e.readMethodOf(dt); fn != nil {
				// a reader implemented in the repository: its Read is executed (through its contract or body)
				return e.readFullVia(st, fr, fn, rd, buf, in)
			}
		}
		tag := e.freshName("readfull")
		st2 := st.fork()
		e.readInto(st, id, buf, true, tag)
		e.readInto(st2, id, buf, false, tag)
		nfail := mkIntVarR(tag+".n", big0, big.NewInt(1<<40))
		st2.assume(mkLt(nfail, buf.length))
		return &forkVal{outs: []callOutcome{
			{st: st, result: tuple(buf.length, &IfaceVal{null: tTrue})},
			{st: st2, result: tuple(nfail, &IfaceVal{null: tFalse, tag: "io.ReadFull"})},
		}}
	}
	// TupleHash (gitlab.com/yawning/tuplehash): NewTupleHashXOF128(S), Write, Read
	intrinsicDoc["gitlab.com/yawning/tuplehash.NewTupleHashXOF128"] = "returns a fresh object whose abstract state is thxof128(bstr(S)) (uninterpreted)"
	intrinsics["gitlab.com/yawning/tuplehash.NewTupleHashXOF128"] = func(e *Engine, st *State, fr *Frame, args []Value, in *ssa.Call) Value {
		e.usedIntrinsic("gitlab.com/yawning/tuplehash.NewTupleHashXOF128")
		env := &SpecEnv{e: e, st: st, fnName: "NewTupleHashXOF128"}
		pt := in.Type().(*types.Pointer)
		r := e.newRegion(e.freshName("tuplehash"), pt.Elem(), true)
		r.created = st.epoch + 1
		r.opaque = true
		var cust *Term
		if sl, ok := args[0].(*SliceVal); ok && sl.reg != nil {
			cust = env.bstr(sl)
		} else {
			cust = mkIntVarR(e.freshName("thxof.cust"), nil, nil)
		}
		st.setObjState("r:"+itoa(r.id), mkApp("thxof128", SInt, cust))
		return &PtrVal{reg: r, typ: pt}
	}
	intrinsicDoc["(*gitlab.com/yawning/tuplehash.Hasher).Write"] = "absorbs one tuple element: state := absorb(state, bstr(b)); returns (len(b), nil); reads b only"
	intrinsics["(*gitlab.com/yawning/tuplehash.Hasher).Write"] = func(e *Engine, st *State, fr *Frame, args []Value, in *ssa.Call) Value {
		e.usedIntrinsic("(*gitlab.com/yawning/tuplehash.Hasher).Write")
		env := &SpecEnv{e: e, st: st, fnName: "Hasher.Write"}
		id, ok := e.objID(args[0])
		if !ok {
			e.fail("Hasher.Write on an unknown object")
		}
		sl := args[1].(*SliceVal)
		st.setObjState(id, mkApp("absorb", SInt, st.objState(id), env.bstr(sl)))
		return tuple(sl.length, &IfaceVal{null: tTrue})
	}
}

// readMethodOf: the repository's Read method for a dynamic type, if it has one.
func (e *Engine) readMethodOf(t types.Type) *ssa.Function {
	if e.prog == nil {
		return nil
	}
	ms := e.prog.MethodSets.MethodSet(t)
	for i := 0; i < ms.Len(); i++ {
		sel := ms.At(i)
		if sel.Obj().Name() == "Read" {
			fn := e.prog.MethodValue(sel)
			if fn != nil && fn.Pkg != nil && strings.HasPrefix(fn.Pkg.Pkg.Path(), e.modPath) {
				return fn
			}
		}
	}
	return nil
}

// readFullVia: io.ReadFull over a repository reader whose Read fills the whole buffer or panics.
func (e *Engine) readFullVia(st *State, fr *Frame, fn *ssa.Function, rd *IfaceVal, buf *SliceVal, in *ssa.Call) Value {
	e.fail("io.ReadFull over the repository reader %s is not modelled here", fn.String())
	return nil
}

// spec functions over object states
func init() {
	// rewrite(a, t): the equation a == t (as an assumption it also becomes the rewrite rule a -> t)
	specFuncs["rewrite"] = func(env *SpecEnv, n *ast.CallExpr) Value {
		l, r := env.term(n.Args[0]), env.term(n.Args[1])
		if l.Sort != r.Sort && modulusOf(l.Sort) != nil && r.Sort == SInt {
			r = mkToRing(l.Sort, r)
		}
		return mkEq(l, r)
	}
	// isdyn(x, T): the interface value x is non-nil and its dynamic type is *T
	specFuncs["isdyn"] = func(env *SpecEnv, n *ast.CallExpr) Value {
		iv, ok := env.eval(n.Args[0]).(*IfaceVal)
		if !ok {
			env.fail("isdyn on a non-interface value")
		}
		want := exprString(n.Args[1])
		if iv.dyn != nil {
			return mkAnd(mkNot(iv.null), mkBool(strings.HasSuffix(types.TypeString(iv.dyn, func(*types.Package) string { return "" }), want)))
		}
		if iv.null.IsConst() && iv.null.Val.Sign() != 0 {
			return tFalse
		}
		for _, t := range iv.notDyn {
			if strings.HasSuffix(types.TypeString(t, func(*types.Package) string { return "" }), want) {
				return tFalse
			}
		}
		env.fail("isdyn(%s, %s): undecided (split dyn missing)", exprString(n.Args[0]), want)
		return nil
	}
	// foreign(x, M): the result of the next call of method M of the foreign object behind x
	specFuncs["foreign"] = func(env *SpecEnv, n *ast.CallExpr) Value {
		iv, ok := env.eval(n.Args[0]).(*IfaceVal)
		if !ok || iv.obj == "" {
			env.fail("foreign(%s, ..): not a symbolic interface value", exprString(n.Args[0]))
		}
		return foreignResult(env.state(), iv, exprString(n.Args[1]), types.Typ[types.Uint], false)
	}
	specFuncs["rdstate"] = func(env *SpecEnv, n *ast.CallExpr) Value {
		v := env.eval(n.Args[0])
		id, ok := env.e.objID(v)
		if !ok {
			env.fail("rdstate: %s is not a stream / hash object", exprString(n.Args[0]))
		}
		return env.state().objState(id)
	}
	// rdint(s, n): big-endian integer of the first n bytes the stream in state s returns
	specFuncs["rdint"] = func(env *SpecEnv, n *ast.CallExpr) Value {
		s := env.term(n.Args[0])
		k := env.term(n.Args[1])
		if !k.IsConst() {
			env.fail("rdint needs a constant length")
		}
		out := rdoutArr(s)
		var bs []*Term
		for i := int64(0); i < k.Val.Int64(); i++ {
			bs = append(bs, mkSelect(out, mkInt64(i)))
		}
		return os2ipTerms(bs)
	}
	specFuncs["rdnext"] = func(env *SpecEnv, n *ast.CallExpr) Value {
		return mkApp("rdnext", SInt, env.term(n.Args[0]), env.term(n.Args[1]))
	}
	specFuncs["absorb"] = func(env *SpecEnv, n *ast.CallExpr) Value {
		return mkApp("absorb", SInt, env.term(n.Args[0]), env.term(n.Args[1]))
	}
	specFuncs["thxof128"] = func(env *SpecEnv, n *ast.CallExpr) Value {
		return mkApp("thxof128", SInt, env.term(n.Args[0]))
	}
	// bstr(x): abstract value of the byte string x;  bstrn(len, value): the same from its two components
	specFuncs["bstr"] = func(env *SpecEnv, n *ast.CallExpr) Value {
		return env.bstr(env.sliceOf(env.eval(n.Args[0]), n.Args[0]))
	}
	specFuncs["bstrn"] = func(env *SpecEnv, n *ast.CallExpr) Value {
		return mkApp("bstr", SInt, env.term(n.Args[0]), env.term(n.Args[1]))
	}
}
