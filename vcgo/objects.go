package main

// Opaque stateful objects: byte streams (io.Reader) and hash / XOF objects of dependency packages.
//
// Such an object is modelled by one ghost cell, its *abstract state* (an integer-sorted term built from
// uninterpreted functions).  The model is the usual one for streams and sponge/Merkle-Damgaard objects:
//
//   reader    state s          a successful read of n bytes returns the bytes  rdout(s)[0..n)  and moves
//                              to  rdnext(s, n);  (a nondeterministic source is the special case in which
//                              the initial state is unknown - the state then stands for the unread tape)
//   hash/xof  state s          Write(b) moves to  absorb(s, bstr(b));  a byte string is identified by the
//                              pair (length, big-endian integer value), which determines it uniquely
//
// Nothing is assumed about rdout / rdnext / absorb / the initial-state functions: they are uninterpreted.
// What is assumed (and listed in the evidence) is that the dependency objects *are* functions of the
// bytes written to them in order, write nothing but the buffers passed, and retain no buffer.

import (
	"go/ast"
	"go/token"
	"go/types"
	"math/big"
	"strings"

	"golang.org/x/tools/go/ssa"
)

// objID returns the ghost object behind a reader / hash value.
func (e *Engine) objID(v Value) (string, bool) {
	switch x := v.(type) {
	case *IfaceVal:
		if x.val != nil {
			return e.objID(x.val)
		}
		if x.obj != "" {
			return "o:" + x.obj, true
		}
	case *PtrVal:
		if x.reg != nil && !x.null {
			return "r:" + itoa(x.reg.id), true
		}
	case *RefVal:
		if x.reg != nil {
			return "r:" + itoa(x.reg.id), true
		}
	}
	return "", false
}

func itoa(i int) string { return big.NewInt(int64(i)).String() }

func (s *State) objState(id string) *Term {
	if v, ok := s.ghost["state:"+id]; ok {
		return v.(*Term)
	}
	// unknown initial state; the name depends on the object only, so that old() and the current state agree
	return mkIntVarR("state0$"+id, nil, nil)
}

func (s *State) setObjState(id string, t *Term) { s.ghost["state:"+id] = t }

// bstr: the abstract value of a byte string.
func (env *SpecEnv) bstr(sl *SliceVal) *Term {
	return mkApp("bstr", SInt, sl.length, env.os2ipv(sl))
}

func rdoutArr(s *Term) *Term {
	t := mkApp("rdout", SArr, s)
	t.Lo, t.Hi = big0, big.NewInt(255)
	return t
}

// readInto models a read of exactly len(buf) bytes from the object `id`.  ok=true: the bytes are the
// stream's next bytes; ok=false: the buffer and the stream state are unknown afterwards.
func (e *Engine) readInto(st *State, id string, buf *SliceVal, ok bool, tag string) {
	if !ok {
		if buf.reg != nil {
			e.havocDyn(st, buf, tag)
		}
		st.setObjState(id, mkIntVarR(tag+".state", nil, nil))
		return
	}
	s0 := st.objState(id)
	out := rdoutArr(s0)
	if buf.reg != nil {
		if buf.length.IsConst() && (!buf.reg.dyn) && buf.off.IsConst() {
			for i := int64(0); i < buf.length.Val.Int64(); i++ {
				e.sliceElemStore(st, buf, mkInt64(i), mkSelect(out, mkInt64(i)))
			}
		} else if buf.reg.dyn && buf.off.IsConst() && buf.off.Val.Sign() == 0 && buf.length.Key() == buf.reg.dynLen.Key() {
			st.mem.cells[pathKey(buf.reg.id, nil)] = out
			st.markWritten(pathKey(buf.reg.id, nil))
		} else if buf.length.IsConst() {
			for i := int64(0); i < buf.length.Val.Int64(); i++ {
				e.sliceElemStore(st, buf, mkInt64(i), mkSelect(out, mkInt64(i)))
			}
		} else {
			e.havocDyn(st, buf, tag) // contents not tracked for symbolic windows
		}
	}
	st.setObjState(id, mkApp("rdnext", SInt, s0, buf.length))
}

func init() {
	intrinsicDoc["io.ReadFull"] = "io.Reader contract: the reader is a byte stream (ghost state s; a full read of n bytes returns rdout(s)[0..n) and moves to rdnext(s,n), both uninterpreted); it writes only into buf and retains nothing; returns (len(buf), nil) or (n < len(buf), non-nil error); a nil reader panics (obligation at the call site)"
	intrinsics["io.ReadFull"] = func(e *Engine, st *State, fr *Frame, args []Value, in *ssa.Call) Value {
		e.usedIntrinsic("io.ReadFull")
		rd, _ := args[0].(*IfaceVal)
		buf := args[1].(*SliceVal)
		if rd == nil || rd.null == nil {
			e.fail("io.ReadFull: reader is not an interface value")
		}
		e.addObligation(st, fr, "safety", "io.ReadFull.reader", mkNot(rd.null), "the reader passed to io.ReadFull is not nil")
		id, okID := e.objID(rd)
		if !okID {
			e.fail("io.ReadFull: reader without an object identity")
		}
		if dt := rd.dyn; dt != nil {
			if fn := e.readMethodOf(dt); fn != nil {
				// a reader implemented in the repository: its Read is executed (through its contract or body)
				return e.readFullVia(st, fr, fn, rd, buf, in)
			}
		}
		tag := e.freshName("readfull")
		st2 := st.fork()
		e.readInto(st, id, buf, true, tag)
		e.readInto(st2, id, buf, false, tag)
		nfail := mkIntVarR(tag+".n", big0, big.NewInt(1<<40))
		st2.assume(mkLt(nfail, buf.length))
		return &forkVal{outs: []callOutcome{
			{st: st, result: tuple(buf.length, &IfaceVal{null: tTrue})},
			{st: st2, result: tuple(nfail, &IfaceVal{null: tFalse, tag: "io.ReadFull"})},
		}}
	}
	// TupleHash (gitlab.com/yawning/tuplehash): NewTupleHashXOF128(S), Write, Read
	intrinsicDoc["gitlab.com/yawning/tuplehash.NewTupleHashXOF128"] = "returns a fresh object whose abstract state is thxof128(bstr(S)) (uninterpreted)"
	intrinsics["gitlab.com/yawning/tuplehash.NewTupleHashXOF128"] = func(e *Engine, st *State, fr *Frame, args []Value, in *ssa.Call) Value {
		e.usedIntrinsic("gitlab.com/yawning/tuplehash.NewTupleHashXOF128")
		env := &SpecEnv{e: e, st: st, fnName: "NewTupleHashXOF128"}
		pt := in.Type().(*types.Pointer)
		r := e.newRegion(e.freshName("tuplehash"), pt.Elem(), true)
		r.created = st.epoch + 1
		r.opaque = true
		var cust *Term
		if sl, ok := args[0].(*SliceVal); ok && sl.reg != nil {
			cust = env.bstr(sl)
		} else if sv, ok := args[0].(*StrVal); ok && strAbs(sv) != nil {
			cust = strAbs(sv)
		} else {
			cust = mkIntVarR(e.freshName("thxof.cust"), nil, nil)
		}
		st.setObjState("r:"+itoa(r.id), mkApp("thxof128", SInt, cust))
		return &PtrVal{reg: r, typ: pt}
	}
	intrinsicDoc["(*gitlab.com/yawning/tuplehash.Hasher).Write"] = "absorbs one tuple element: state := absorb(state, bstr(b)); returns (len(b), nil); reads b only"
	intrinsics["(*gitlab.com/yawning/tuplehash.Hasher).Write"] = func(e *Engine, st *State, fr *Frame, args []Value, in *ssa.Call) Value {
		e.usedIntrinsic("(*gitlab.com/yawning/tuplehash.Hasher).Write")
		env := &SpecEnv{e: e, st: st, fnName: "Hasher.Write"}
		id, ok := e.objID(args[0])
		if !ok {
			e.fail("Hasher.Write on an unknown object")
		}
		sl := args[1].(*SliceVal)
		st.setObjState(id, mkApp("absorb", SInt, st.objState(id), env.bstr(sl)))
		return tuple(sl.length, &IfaceVal{null: tTrue})
	}
}

// readMethodOf: the repository's Read method for a dynamic type, if it has one.
func (e *Engine) readMethodOf(t types.Type) *ssa.Function {
	if e.prog == nil {
		return nil
	}
	ms := e.prog.MethodSets.MethodSet(t)
	for i := 0; i < ms.Len(); i++ {
		sel := ms.At(i)
		if sel.Obj().Name() == "Read" {
			fn := e.prog.MethodValue(sel)
			if fn != nil && fn.Pkg != nil && strings.HasPrefix(fn.Pkg.Pkg.Path(), e.modPath) {
				return fn
			}
		}
	}
	return nil
}

// readFullVia: io.ReadFull over a repository reader whose Read fills the whole buffer or panics.
func (e *Engine) readFullVia(st *State, fr *Frame, fn *ssa.Function, rd *IfaceVal, buf *SliceVal, in *ssa.Call) Value {
	e.fail("io.ReadFull over the repository reader %s is not modelled here", fn.String())
	return nil
}

// spec functions over object states
func init() {
	// rewrite(a, t): the equation a == t (as an assumption it also becomes the rewrite rule a -> t)
	specFuncs["rewrite"] = func(env *SpecEnv, n *ast.CallExpr) Value {
		l, r := env.term(n.Args[0]), env.term(n.Args[1])
		if l.Sort != r.Sort && modulusOf(l.Sort) != nil && r.Sort == SInt {
			r = mkToRing(l.Sort, r)
		}
		return mkEq(l, r)
	}
	// isdyn(x, T): the interface value x is non-nil and its dynamic type is *T
	specFuncs["isdyn"] = func(env *SpecEnv, n *ast.CallExpr) Value {
		iv, ok := env.eval(n.Args[0]).(*IfaceVal)
		if !ok {
			env.fail("isdyn on a non-interface value")
		}
		want := exprString(n.Args[1])
		if iv.dyn != nil {
			return mkAnd(mkNot(iv.null), mkBool(strings.TrimPrefix(types.TypeString(iv.dyn, func(*types.Package) string { return "" }), "*") == want))
		}
		if iv.null.IsConst() && iv.null.Val.Sign() != 0 {
			return tFalse
		}
		for _, t := range iv.notDyn {
			if strings.TrimPrefix(types.TypeString(t, func(*types.Package) string { return "" }), "*") == want {
				return tFalse
			}
		}
		// symbolic interface value: the dynamic type is a term (decided by case analysis at call sites)
		if iv.tagT != nil && env.pkg != nil {
			if obj := env.pkg.Scope().Lookup(want); obj != nil {
				var t types.Type = types.NewPointer(obj.Type())
				if s, ok := underlying(obj.Type()).(*types.Struct); ok && s.NumFields() == 0 {
					t = obj.Type()
				}
				return mkAnd(mkNot(iv.null), mkEq(iv.tagT, dynTypeTerm(t)))
			}
		}
		env.fail("isdyn(%s, %s): undecided (split dyn missing)", exprString(n.Args[0]), want)
		return nil
	}
	// foreign(x, M): the result of the next call of method M of the foreign object behind x
	specFuncs["foreign"] = func(env *SpecEnv, n *ast.CallExpr) Value {
		iv, ok := env.eval(n.Args[0]).(*IfaceVal)
		if !ok || iv.obj == "" {
			env.fail("foreign(%s, ..): not a symbolic interface value", exprString(n.Args[0]))
		}
		return foreignResult(env.state(), iv, exprString(n.Args[1]), types.Typ[types.Uint], false)
	}
	// osrand(): the reader crypto/rand.Reader
	specFuncs["osrand"] = func(env *SpecEnv, n *ast.CallExpr) Value {
		return &IfaceVal{null: tFalse, tagT: mkIntVarR("rand.Reader.dyn", nil, nil), obj: "rand.Reader"}
	}
	specFuncs["sampok"] = func(env *SpecEnv, n *ast.CallExpr) Value {
		return mkApp("sampok", SBool, env.term(n.Args[0]), env.term(n.Args[1]))
	}
	specFuncs["sampv"] = func(env *SpecEnv, n *ast.CallExpr) Value {
		t := mkApp("sampv", SInt, env.term(n.Args[0]), env.term(n.Args[1]))
		t.Lo = big0
		return t
	}
	specFuncs["samps"] = func(env *SpecEnv, n *ast.CallExpr) Value {
		return mkApp("samps", SInt, env.term(n.Args[0]), env.term(n.Args[1]))
	}
	// bebyte(n, x, i): byte i of the n-byte big-endian representation of x
	specFuncs["bebyte"] = func(env *SpecEnv, n *ast.CallExpr) Value {
		k := env.term(n.Args[0])
		if !k.IsConst() {
			env.fail("bebyte needs a constant width")
		}
		return mkSelect(mkBe(k.Val.Int64(), env.term(n.Args[1])), env.term(n.Args[2]))
	}
	// xorbe32(s, x): big-endian value of the 32 bytes  hashout(s)[i] ^ be(32, x)[i]
	specFuncs["xorbe32"] = func(env *SpecEnv, n *ast.CallExpr) Value {
		out := hashoutArr(env.term(n.Args[0]))
		be := mkBe(32, env.term(n.Args[1]))
		var bs []*Term
		for i := int64(0); i < 32; i++ {
			bs = append(bs, env.e.bitOp(token.XOR, mkSelect(out, mkInt64(i)), mkSelect(be, mkInt64(i)), types.Typ[types.Uint8]))
		}
		return os2ipTerms(bs)
	}
	// xorhh32(s, t): big-endian value of the 32 bytes  hashout(s)[i] ^ hashout(t)[i]
	specFuncs["xorhh32"] = func(env *SpecEnv, n *ast.CallExpr) Value {
		a, b := hashoutArr(env.term(n.Args[0])), hashoutArr(env.term(n.Args[1]))
		var bs []*Term
		for i := int64(0); i < 32; i++ {
			bs = append(bs, env.e.bitOp(token.XOR, mkSelect(a, mkInt64(i)), mkSelect(b, mkInt64(i)), types.Typ[types.Uint8]))
		}
		return os2ipTerms(bs)
	}
	specFuncs["swu_y"] = func(env *SpecEnv, n *ast.CallExpr) Value {
		return mkApp("swu_y", SFp, env.term(n.Args[0]))
	}
	specFuncs["rdstate"] = func(env *SpecEnv, n *ast.CallExpr) Value {
		v := env.eval(n.Args[0])
		id, ok := env.e.objID(v)
		if !ok {
			env.fail("rdstate: %s is not a stream / hash object", exprString(n.Args[0]))
		}
		return env.state().objState(id)
	}
	// rdint(s, n): big-endian integer of the first n bytes the stream in state s returns
	specFuncs["rdint"] = func(env *SpecEnv, n *ast.CallExpr) Value {
		s := env.term(n.Args[0])
		k := env.term(n.Args[1])
		if !k.IsConst() {
			env.fail("rdint needs a constant length")
		}
		out := rdoutArr(s)
		var bs []*Term
		for i := int64(0); i < k.Val.Int64(); i++ {
			bs = append(bs, mkSelect(out, mkInt64(i)))
		}
		return os2ipTerms(bs)
	}
	specFuncs["rdnext"] = func(env *SpecEnv, n *ast.CallExpr) Value {
		return mkApp("rdnext", SInt, env.term(n.Args[0]), env.term(n.Args[1]))
	}
	specFuncs["absorb"] = func(env *SpecEnv, n *ast.CallExpr) Value {
		return mkApp("absorb", SInt, env.term(n.Args[0]), env.term(n.Args[1]))
	}
	specFuncs["thxof128"] = func(env *SpecEnv, n *ast.CallExpr) Value {
		return mkApp("thxof128", SInt, env.term(n.Args[0]))
	}
	// bstr(x): abstract value of the byte string x;  bstrn(len, value): the same from its two components
	specFuncs["bstr"] = func(env *SpecEnv, n *ast.CallExpr) Value {
		return env.bstr(env.sliceOf(env.eval(n.Args[0]), n.Args[0]))
	}
	specFuncs["bstrn"] = func(env *SpecEnv, n *ast.CallExpr) Value {
		return mkApp("bstr", SInt, env.term(n.Args[0]), env.term(n.Args[1]))
	}
}

// ---------------------------------------------------------------------------- hash objects
//
// A hash object (sha256, hmac-sha256, a crypto.Hash instance) has the abstract state
//     init-state                      sha256$init | hmacsha256$init(bstr(key)) | hash$init(id)
//     absorb(s, bstr(b))              after Write(b)
// and Sum(b) appends the digest bytes  hashout(s)[0..size)  to b without changing the state.  hashout / absorb and
// the init functions are uninterpreted: the model says that the digest is a function of the sequence of byte
// strings written (as written: chunk boundaries are part of the model's state; specifications use the same chunks).

type hashKind struct {
	init *Term
	size int64
}

func (e *Engine) newHashObject(st *State, name string, init *Term, size, block int64) *IfaceVal {
	id := e.freshName(name)
	st.setObjState("o:"+id, init)
	st.ghost["hashinit:o:"+id] = init
	st.ghost["hashsize:o:"+id] = mkInt64(size)
	st.ghost["hashblock:o:"+id] = mkInt64(block)
	return &IfaceVal{null: tFalse, tagT: mkIntVarR(id+".dyn", nil, nil), obj: id}
}

func hashoutArr(s *Term) *Term {
	t := mkApp("hashout", SArr, s)
	t.Lo, t.Hi = big0, big.NewInt(255)
	return t
}

// digestSlice materialises the digest of state s as a fresh byte slice of the given size.
func (e *Engine) digestSlice(st *State, s *Term, size int64) *SliceVal {
	at := types.NewArray(types.Typ[types.Uint8], size)
	r := e.newRegion(e.freshName("digest"), at, true)
	r.created = st.epoch + 1
	out := hashoutArr(s)
	for i := int64(0); i < size; i++ {
		st.mem.cells[pathKey(r.id, []int{int(i)})] = mkSelect(out, mkInt64(i))
	}
	n := mkInt64(size)
	return &SliceVal{reg: r, off: mkInt64(0), length: n, capacity: n, elem: types.Typ[types.Uint8], backingN: size}
}

func (e *Engine) hashObj(st *State, v Value, what string) (string, int64) {
	id, ok := e.objID(v)
	if !ok {
		e.fail("%s on a value that is not a modelled hash object", what)
	}
	sz, ok := st.ghost["hashsize:"+id]
	if !ok {
		e.fail("%s on an object that is not a modelled hash object", what)
	}
	return id, sz.(*Term).Val.Int64()
}

func init() {
	doc := "hash object model: state = init | absorb(state, bstr(b)); Sum appends hashout(state)[0..size); uninterpreted functions; the object writes only the buffers passed to it and retains none"
	intrinsicDoc["crypto/sha256.New"] = doc
	intrinsicDoc["crypto/sha256.Sum256"] = "digest of one byte string: hashout(absorb(sha256$init, bstr(data)))[0..32)"
	intrinsicDoc["crypto/hmac.New"] = doc + "; hmac.New(sha256.New, key) starts in hmacsha256$init(bstr(key))"
	intrinsicDoc["(crypto.Hash).New"] = doc + "; for hash id h the initial state is hash$init(h) (SHA-256, id 5: sha256$init)"
	intrinsicDoc["crypto/subtle.XORBytes"] = "dst[i] = x[i] ^ y[i] for i < min(len(x), len(y)); panics if dst is shorter (obligation)"

	sha256Init := func() *Term { return mkApp("sha256$init", SInt) }
	intrinsics["crypto/sha256.New"] = func(e *Engine, st *State, fr *Frame, args []Value, in *ssa.Call) Value {
		e.usedIntrinsic("crypto/sha256.New")
		return e.newHashObject(st, "sha256", sha256Init(), 32, 64)
	}
	intrinsics["crypto/sha256.Sum256"] = func(e *Engine, st *State, fr *Frame, args []Value, in *ssa.Call) Value {
		e.usedIntrinsic("crypto/sha256.Sum256")
		env := &SpecEnv{e: e, st: st, fnName: "sha256.Sum256"}
		var msg *Term
		if sv, ok := args[0].(*StrVal); ok && strAbs(sv) != nil {
			msg = strAbs(sv) // []byte(s) of a string whose bytes are not tracked
		} else {
			msg = env.bstr(env.nonNil(args[0].(*SliceVal)))
		}
		s := mkApp("absorb", SInt, sha256Init(), msg)
		out := hashoutArr(s)
		a := &AggVal{typ: in.Type()}
		for i := int64(0); i < 32; i++ {
			a.elems = append(a.elems, mkSelect(out, mkInt64(i)))
		}
		return a
	}
	intrinsics["crypto/hmac.New"] = func(e *Engine, st *State, fr *Frame, args []Value, in *ssa.Call) Value {
		e.usedIntrinsic("crypto/hmac.New")
		fv, ok := args[0].(*FuncVal)
		if !ok {
			e.fail("hmac.New: hash constructor is not a function value")
		}
		if fn, ok := fv.fn.(*ssa.Function); !ok || fn.String() != "crypto/sha256.New" {
			e.fail("hmac.New: only sha256.New is modelled")
		}
		env := &SpecEnv{e: e, st: st, fnName: "hmac.New"}
		key := args[1].(*SliceVal)
		return e.newHashObject(st, "hmacsha256", mkApp("hmacsha256$init", SInt, env.bstr(env.nonNil(key))), 32, 64)
	}
	intrinsics["(crypto.Hash).New"] = func(e *Engine, st *State, fr *Frame, args []Value, in *ssa.Call) Value {
		e.usedIntrinsic("(crypto.Hash).New")
		h := st.sub(args[0].(*Term))
		if !h.IsConst() || h.Val.Int64() != 5 {
			e.fail("(crypto.Hash).New: only SHA-256 (id 5) is modelled; the hash id must be fixed by a precondition")
		}
		return e.newHashObject(st, "sha256", sha256Init(), 32, 64)
	}
	intrinsics["invoke hash.Hash.Write"] = func(e *Engine, st *State, fr *Frame, args []Value, in *ssa.Call) Value {
		env := &SpecEnv{e: e, st: st, fnName: "hash.Write"}
		id, _ := e.hashObj(st, args[0], "Write")
		sl := env.nonNil(args[1].(*SliceVal))
		st.setObjState(id, mkApp("absorb", SInt, st.objState(id), env.bstr(sl)))
		return tuple(sl.length, &IfaceVal{null: tTrue})
	}
	intrinsics["invoke hash.Hash.Sum"] = func(e *Engine, st *State, fr *Frame, args []Value, in *ssa.Call) Value {
		id, size := e.hashObj(st, args[0], "Sum")
		d := e.digestSlice(st, st.objState(id), size)
		b := args[1].(*SliceVal)
		if b.reg == nil {
			return d // Sum(nil): a fresh slice holding the digest
		}
		return e.appendSlices(st, fr, b, d)
	}
	intrinsics["invoke hash.Hash.Reset"] = func(e *Engine, st *State, fr *Frame, args []Value, in *ssa.Call) Value {
		id, _ := e.hashObj(st, args[0], "Reset")
		st.setObjState(id, st.ghost["hashinit:"+id].(*Term))
		return nil
	}
	intrinsics["invoke hash.Hash.Size"] = func(e *Engine, st *State, fr *Frame, args []Value, in *ssa.Call) Value {
		_, size := e.hashObj(st, args[0], "Size")
		return mkInt64(size)
	}
	intrinsics["invoke hash.Hash.BlockSize"] = func(e *Engine, st *State, fr *Frame, args []Value, in *ssa.Call) Value {
		id, _ := e.hashObj(st, args[0], "BlockSize")
		return st.ghost["hashblock:"+id].(*Term)
	}
	intrinsics["crypto/subtle.XORBytes"] = func(e *Engine, st *State, fr *Frame, args []Value, in *ssa.Call) Value {
		e.usedIntrinsic("crypto/subtle.XORBytes")
		dst, x, y := args[0].(*SliceVal), args[1].(*SliceVal), args[2].(*SliceVal)
		n := minTerm(x.length, y.length)
		if !n.IsConst() {
			e.fail("XORBytes with symbolic lengths")
		}
		e.addObligation(st, fr, "safety", "XORBytes.dst", mkLe(n, dst.length), "subtle.XORBytes: dst is at least as long as the shorter input")
		k := n.Val.Int64()
		vals := make([]*Term, k)
		for i := int64(0); i < k; i++ {
			vals[i] = e.bitOp(token.XOR, e.sliceElem(st, x, mkInt64(i)), e.sliceElem(st, y, mkInt64(i)), types.Typ[types.Uint8])
		}
		for i := int64(0); i < k; i++ {
			e.sliceElemStore(st, dst, mkInt64(i), vals[i])
		}
		return n
	}
	// specification side
	specFuncs["sha256init"] = func(env *SpecEnv, n *ast.CallExpr) Value { return sha256Init() }
	specFuncs["hmacinit"] = func(env *SpecEnv, n *ast.CallExpr) Value {
		return mkApp("hmacsha256$init", SInt, env.term(n.Args[0]))
	}
	// hashint(s, n): big-endian integer of the first n digest bytes of state s;  hashbyte(s, i): byte i
	specFuncs["hashint"] = func(env *SpecEnv, n *ast.CallExpr) Value {
		s, k := env.term(n.Args[0]), env.term(n.Args[1])
		if !k.IsConst() {
			env.fail("hashint needs a constant length")
		}
		out := hashoutArr(s)
		var bs []*Term
		for i := int64(0); i < k.Val.Int64(); i++ {
			bs = append(bs, mkSelect(out, mkInt64(i)))
		}
		return os2ipTerms(bs)
	}
	// hashsl(s, i, j): big-endian integer of digest bytes i..j-1 of state s
	specFuncs["hashsl"] = func(env *SpecEnv, n *ast.CallExpr) Value {
		s, i, j := env.term(n.Args[0]), env.term(n.Args[1]), env.term(n.Args[2])
		if !i.IsConst() || !j.IsConst() {
			env.fail("hashsl needs constant bounds")
		}
		out := hashoutArr(s)
		var bs []*Term
		for k := i.Val.Int64(); k < j.Val.Int64(); k++ {
			bs = append(bs, mkSelect(out, mkInt64(k)))
		}
		return os2ipTerms(bs)
	}
	// hashbytes(x, s, i0): the bytes of x (constant length n) are digest bytes i0 .. i0+n-1 of state s
	specFuncs["hashbytes"] = func(env *SpecEnv, n *ast.CallExpr) Value {
		els := env.elemsOf(env.eval(n.Args[0]), n.Args[0])
		s, i0 := env.term(n.Args[1]), env.term(n.Args[2])
		if !i0.IsConst() {
			env.fail("hashbytes needs a constant offset")
		}
		out := hashoutArr(s)
		var cs []*Term
		for k, b := range els {
			cs = append(cs, mkEq(b, mkSelect(out, mkInt64(i0.Val.Int64()+int64(k)))))
		}
		return mkAnd(cs...)
	}
	specFuncs["hashbyte"] = func(env *SpecEnv, n *ast.CallExpr) Value {
		return mkSelect(hashoutArr(env.term(n.Args[0])), env.term(n.Args[1]))
	}
	// xor8(a, b): bytewise exclusive or, the same term the engine builds for a ^ b on bytes
	specFuncs["xor8"] = func(env *SpecEnv, n *ast.CallExpr) Value {
		return env.e.bitOp(token.XOR, env.term(n.Args[0]), env.term(n.Args[1]), types.Typ[types.Uint8])
	}
}

// ---------------------------------------------------------------------------- abstract byte strings

// bstrConst: the abstract value of a literal byte string.
func bstrConst(b []byte) *Term {
	return mkApp("bstr", SInt, mkInt64(int64(len(b))), mkInt(new(big.Int).SetBytes(b)))
}

func bstrParts(t *Term) (n int64, v *big.Int, ok bool) {
	if t.Op == "app" && t.Name == "bstr" && len(t.Args) == 2 && t.Args[0].IsConst() && t.Args[1].IsConst() {
		return t.Args[0].Val.Int64(), t.Args[1].Val, true
	}
	return 0, nil, false
}

// mkBcat: concatenation of abstract byte strings (literal operands are folded).
func mkBcat(a, b *Term) *Term {
	if na, va, ok := bstrParts(a); ok {
		if nb, vb, ok := bstrParts(b); ok {
			v := new(big.Int).Lsh(va, uint(8*nb))
			v.Add(v, vb)
			return mkApp("bstr", SInt, mkInt64(na+nb), mkInt(v))
		}
	}
	return mkApp("bcat", SInt, a, b)
}

func strAbs(s *StrVal) *Term {
	if s.known {
		return bstrConst([]byte(s.s))
	}
	return s.abs
}

func init() {
	specFuncs["strabs"] = func(env *SpecEnv, n *ast.CallExpr) Value {
		sv, ok := env.eval(n.Args[0]).(*StrVal)
		if !ok || strAbs(sv) == nil {
			env.fail("strabs(%s): not a string with an abstract value", exprString(n.Args[0]))
		}
		return strAbs(sv)
	}
	// validutf8(s): the string is valid UTF-8 (uninterpreted predicate of its abstract value)
	specFuncs["validutf8"] = func(env *SpecEnv, n *ast.CallExpr) Value {
		sv, ok := env.eval(n.Args[0]).(*StrVal)
		if !ok || strAbs(sv) == nil {
			env.fail("validutf8(%s): not a string with an abstract value", exprString(n.Args[0]))
		}
		return mkApp("validutf8", SBool, strAbs(sv))
	}
	specFuncs["strlen"] = func(env *SpecEnv, n *ast.CallExpr) Value {
		sv, ok := env.eval(n.Args[0]).(*StrVal)
		if !ok || strAbs(sv) == nil {
			env.fail("strlen(%s): not a string with an abstract value", exprString(n.Args[0]))
		}
		if sv.known {
			return mkInt64(int64(len(sv.s)))
		}
		return mkApp("strlen", SInt, sv.abs)
	}
	intrinsics["strings.ToValidUTF8"] = func(e *Engine, st *State, fr *Frame, args []Value, in *ssa.Call) Value {
		e.usedIntrinsic("strings.ToValidUTF8")
		s, ok := args[0].(*StrVal)
		if !ok || strAbs(s) == nil {
			e.fail("strings.ToValidUTF8: argument without an abstract value")
		}
		// the result equals the argument iff the argument is valid UTF-8 (invalid sequences are replaced, and
		// no replacement string reproduces the invalid bytes it replaces: for "" the result is shorter, in
		// general the result is valid UTF-8 and the argument is not)
		r := mkIntVarR(e.freshName("toValidUTF8"), nil, nil)
		st.assume(mkIff(mkEq(r, strAbs(s)), mkApp("validutf8", SBool, strAbs(s))))
		return &StrVal{abs: r}
	}
	specFuncs["bcat"] = func(env *SpecEnv, n *ast.CallExpr) Value {
		return mkBcat(env.term(n.Args[0]), env.term(n.Args[1]))
	}
	specFuncs["bstrs"] = func(env *SpecEnv, n *ast.CallExpr) Value {
		sv, ok := env.eval(n.Args[0]).(*StrVal)
		if !ok || !sv.known {
			env.fail("bstrs needs a string literal")
		}
		return bstrConst([]byte(sv.s))
	}
}
