package main

// Term language of the verifier.  Sorts: Int (mathematical integers, also used for machine
// integers together with explicit range facts), Bool, Fp / Fn (residues mod P / N, kept as
// normalised polynomials), Pt (abstract curve points, kept as Fn-linear combinations),
// Arr (Int -> Int maps for byte regions of unknown length), BV (bit-vectors, bv mode only).

import (
	"crypto/sha256"
	"encoding/hex"
	"fmt"
	"math/big"
	"sort"
	"strings"
)

type Sort uint8

const (
	SInt Sort = iota
	SBool
	SFp
	SFn
	SPt
	SArr
	SBV
)

func (s Sort) String() string {
	return [...]string{"Int", "Bool", "Fp", "Fn", "Pt", "Arr", "BV"}[s]
}

var (
	bigP, _ = new(big.Int).SetString("fffffffffffffffffffffffffffffffffffffffffffffffffffffffefffffc2f", 16)
	bigN, _ = new(big.Int).SetString("fffffffffffffffffffffffffffffffebaaedce6af48a03bbfd25e8cd0364141", 16)
	big0    = big.NewInt(0)
	big1    = big.NewInt(1)
	big2    = big.NewInt(2)
	bigW    = new(big.Int).Lsh(big1, 64)
	bigR    = new(big.Int).Lsh(big1, 256)
)

func modulusOf(s Sort) *big.Int {
	switch s {
	case SFp:
		return bigP
	case SFn:
		return bigN
	}
	return nil
}

// Term is immutable after construction.  Ring-sorted terms (Int, Fp, Fn) that are not atoms
// carry a Poly; Pt terms that are not atoms carry a Lin.
type Term struct {
	Op   string // const var app ite poly lin + bool ops: and or not = < <= ; arr: store select; bv ops
	Sort Sort
	W    int // bv width
	Args []*Term
	Val  *big.Int
	Name string
	P    *Poly
	L    *Lin
	key  string
	// range knowledge for Int atoms (inclusive); nil = unknown
	Lo, Hi *big.Int
}

func (t *Term) Key() string {
	if t.key == "" {
		t.key = t.mkKey()
	}
	return t.key
}

func (t *Term) mkKey() string {
	switch t.Op {
	case "const":
		if t.Sort == SBV {
			return fmt.Sprintf("#bv%d_%s", t.W, t.Val.Text(16))
		}
		if t.Sort == SBool {
			if t.Val.Sign() != 0 {
				return "true"
			}
			return "false"
		}
		return t.Sort.String()[:1] + "#" + t.Val.String()
	case "var":
		return t.Name
	case "poly":
		return t.P.Key()
	case "lin":
		return t.L.Key()
	}
	var sb strings.Builder
	sb.WriteString("(")
	sb.WriteString(t.Op)
	if t.Name != "" {
		sb.WriteString(":" + t.Name)
		if t.Name == "toring" {
			sb.WriteString(t.Sort.String()[:2]) // the same integer maps to different residues in Z/P and Z/N
		}
	}
	if t.Val != nil {
		sb.WriteString("#" + t.Val.String())
	}
	for _, a := range t.Args {
		sb.WriteString(" ")
		sb.WriteString(a.Key())
	}
	sb.WriteString(")")
	return shortKey(sb.String())
}

// shortKey keeps keys bounded: long structural keys are replaced by a digest (terms are DAGs; the
// textual key of a DAG can be exponentially long).
func shortKey(s string) string {
	if len(s) <= 96 {
		return s
	}
	h := sha256.Sum256([]byte(s))
	return "#" + hex.EncodeToString(h[:12]) + "~" + s[:24]
}

func (t *Term) String() string { return t.Key() }

func (t *Term) IsConst() bool { return t.Op == "const" }

// ---------------------------------------------------------------------------- constructors

var (
	tTrue  = &Term{Op: "const", Sort: SBool, Val: big1}
	tFalse = &Term{Op: "const", Sort: SBool, Val: big0}
)

func mkBool(b bool) *Term {
	if b {
		return tTrue
	}
	return tFalse
}

func mkInt(v *big.Int) *Term  { return &Term{Op: "const", Sort: SInt, Val: new(big.Int).Set(v)} }
func mkInt64(v int64) *Term   { return mkInt(big.NewInt(v)) }
func mkUint64(v uint64) *Term { return mkInt(new(big.Int).SetUint64(v)) }

func mkRingConst(s Sort, v *big.Int) *Term {
	if m := modulusOf(s); m != nil {
		return &Term{Op: "const", Sort: s, Val: new(big.Int).Mod(v, m)}
	}
	return mkInt(v)
}

func mkVar(name string, s Sort) *Term { return &Term{Op: "var", Sort: s, Name: name} }

func mkIntVarR(name string, lo, hi *big.Int) *Term {
	return &Term{Op: "var", Sort: SInt, Name: name, Lo: lo, Hi: hi}
}

var (
	maxU64 = new(big.Int).Sub(bigW, big1)
	maxU8  = big.NewInt(255)
)

// mkApp builds an uninterpreted application.  Result range may be attached by the caller.
func mkApp(name string, s Sort, args ...*Term) *Term {
	return &Term{Op: "app", Sort: s, Name: name, Args: args}
}

func isRing(s Sort) bool { return s == SInt || s == SFp || s == SFn }

// ---------------------------------------------------------------------------- ite lifting

const maxIteLeaves = 96

func countLeaves(t *Term) int {
	if t.Op != "ite" {
		return 1
	}
	return countLeaves(t.Args[1]) + countLeaves(t.Args[2])
}

// restrict simplifies t under the assumption that condition c has truth value v.
func restrict(t *Term, c *Term, v bool) *Term {
	if t.Op != "ite" {
		return t
	}
	if t.Args[0].Key() == c.Key() {
		if v {
			return restrict(t.Args[1], c, v)
		}
		return restrict(t.Args[2], c, v)
	}
	a, b := restrict(t.Args[1], c, v), restrict(t.Args[2], c, v)
	if a == t.Args[1] && b == t.Args[2] {
		return t
	}
	return mkIte(t.Args[0], a, b)
}

func mkIte(c, a, b *Term) *Term {
	if c.IsConst() {
		if c.Val.Sign() != 0 {
			return a
		}
		return b
	}
	if c.Op == "not" {
		return mkIte(c.Args[0], b, a)
	}
	a = restrict(a, c, true)
	b = restrict(b, c, false)
	if a.Key() == b.Key() {
		return a
	}
	if a.Sort == SBool {
		return mkOr(mkAnd(c, a), mkAnd(mkNot(c), b))
	}
	return &Term{Op: "ite", Sort: a.Sort, W: a.W, Args: []*Term{c, a, b}}
}

// lift1 / lift2 distribute an operation over ite-trees of ring / point sorted operands.
func lift1(t *Term, f func(*Term) *Term) *Term {
	if t.Op == "ite" && (isRing(t.Sort) || t.Sort == SPt) && (t.Sort != SInt || countLeaves(t) <= 16) {
		return mkIte(t.Args[0], lift1(t.Args[1], f), lift1(t.Args[2], f))
	}
	return f(t)
}

func liftBudget(a *Term) int {
	if a.Sort == SInt {
		// integer ite terms stay atoms of the polynomial unless the case product is tiny
		return 4
	}
	return maxIteLeaves
}

func lift2(a, b *Term, f func(a, b *Term) *Term) *Term {
	if a.Op == "ite" && (isRing(a.Sort) || a.Sort == SPt) {
		if countLeaves(a)*countLeaves(b) <= liftBudget(a) {
			c := a.Args[0]
			return mkIte(c, lift2(a.Args[1], restrict(b, c, true), f), lift2(a.Args[2], restrict(b, c, false), f))
		}
	}
	if b.Op == "ite" && (isRing(b.Sort) || b.Sort == SPt) {
		if countLeaves(a)*countLeaves(b) <= liftBudget(b) {
			c := b.Args[0]
			return mkIte(c, lift2(restrict(a, c, true), b.Args[1], f), lift2(restrict(a, c, false), b.Args[2], f))
		}
	}
	return f(a, b)
}

// ---------------------------------------------------------------------------- ring ops

func polyOf(t *Term) *Poly {
	switch t.Op {
	case "const":
		return polyConst(t.Sort, t.Val)
	case "poly":
		return t.P
	}
	return polyAtom(t)
}

func fromPoly(p *Poly) *Term {
	if c, ok := p.IsConst(); ok {
		return mkRingConst(p.sort, c)
	}
	if a := p.IsAtom(); a != nil {
		return a
	}
	t := &Term{Op: "poly", Sort: p.sort, P: p}
	return t
}

func checkSameSort(a, b *Term, op string) {
	if a.Sort != b.Sort {
		panic(fmt.Sprintf("sort mismatch in %s: %s:%s vs %s:%s", op, a.Key(), a.Sort, b.Key(), b.Sort))
	}
}

func mkAdd(a, b *Term) *Term {
	checkSameSort(a, b, "+")
	return lift2(a, b, func(a, b *Term) *Term { return fromPoly(polyOf(a).Add(polyOf(b))) })
}

func mkNeg(a *Term) *Term {
	return lift1(a, func(a *Term) *Term { return fromPoly(polyOf(a).Scale(big.NewInt(-1))) })
}

func mkSub(a, b *Term) *Term { return mkAdd(a, mkNeg(b)) }

func mkMul(a, b *Term) *Term {
	checkSameSort(a, b, "*")
	return lift2(a, b, func(a, b *Term) *Term { return fromPoly(polyOf(a).Mul(polyOf(b))) })
}

func mkScale(a *Term, k *big.Int) *Term {
	return lift1(a, func(a *Term) *Term { return fromPoly(polyOf(a).Scale(k)) })
}

func mkSum(ts ...*Term) *Term {
	r := ts[0]
	for _, t := range ts[1:] {
		r = mkAdd(r, t)
	}
	return r
}

// mkPow raises a ring term to a constant non-negative power.
func mkPow(a *Term, e *big.Int) *Term {
	return lift1(a, func(a *Term) *Term {
		p := polyOf(a)
		if r := p.PowMono(e); r != nil {
			return fromPoly(r)
		}
		if e.BitLen() <= 6 {
			r := polyConst(a.Sort, big1)
			for i := int64(0); i < e.Int64(); i++ {
				r = r.Mul(p)
			}
			return fromPoly(r)
		}
		// opaque power of a non-monomial: atom
		at := &Term{Op: "app", Sort: a.Sort, Name: "fpow", Args: []*Term{a}, Val: new(big.Int).Set(e)}
		return at
	})
}

// mkDivC / mkModC: floor division and remainder by a positive constant (Int).
func mkDivC(a *Term, k *big.Int) *Term {
	if k.Sign() <= 0 {
		panic("mkDivC: non-positive divisor")
	}
	if k.Cmp(big1) == 0 {
		return a
	}
	if a.IsConst() {
		q := new(big.Int)
		q.Div(a.Val, k) // Euclidean; for k>0 equals floor
		return mkInt(q)
	}
	return lift1(a, func(a *Term) *Term {
		if lo, hi := rangeOf(a); lo != nil && hi != nil && lo.Sign() >= 0 && hi.Cmp(k) < 0 {
			return mkInt64(0)
		}
		t := &Term{Op: "div", Sort: SInt, Args: []*Term{a}, Val: new(big.Int).Set(k)}
		return t
	})
}

func mkModC(a *Term, k *big.Int) *Term {
	if k.Sign() <= 0 {
		panic("mkModC: non-positive modulus")
	}
	if a.IsConst() {
		return mkInt(new(big.Int).Mod(a.Val, k))
	}
	return lift1(a, func(a *Term) *Term {
		if lo, hi := rangeOf(a); lo != nil && hi != nil && lo.Sign() >= 0 && hi.Cmp(k) < 0 {
			return a
		}
		// drop summands whose coefficient is a multiple of k
		p := polyOf(a)
		q := p.DropMultiples(k)
		if c, ok := q.IsConst(); ok {
			return mkInt(new(big.Int).Mod(c, k))
		}
		a2 := fromPoly(q)
		if lo, hi := rangeOf(a2); lo != nil && hi != nil && lo.Sign() >= 0 && hi.Cmp(k) < 0 {
			return a2
		}
		return &Term{Op: "mod", Sort: SInt, Args: []*Term{a2}, Val: new(big.Int).Set(k)}
	})
}

// casts between Int and the residue rings
func mkToRing(s Sort, a *Term) *Term {
	if a.Sort == s {
		return a
	}
	if a.Sort != SInt {
		panic("mkToRing: operand not Int: " + a.Key())
	}
	return lift1(a, func(a *Term) *Term {
		// homomorphism: pushed through small polynomials only; a big linear form (e.g. the value of
		// 32 bytes) stays one atom -- the solver sees it as (mod form M) anyway.
		p := polyOf(a)
		if len(p.t) > 4 {
			return &Term{Op: "app", Sort: s, Name: "toring", Args: []*Term{a}}
		}
		return fromPoly(p.MapToRing(s))
	})
}

// mkLift: canonical representative in [0,M) of a residue.
func mkLift(a *Term) *Term {
	if a.Sort == SInt {
		return a
	}
	m := modulusOf(a.Sort)
	return lift1(a, func(a *Term) *Term {
		if a.IsConst() {
			return mkInt(a.Val)
		}
		// lift(toRing(x)) with 0<=x<M is x
		if a.Op == "app" && a.Name == "toring" {
			if lo, hi := rangeOf(a.Args[0]); lo != nil && hi != nil && lo.Sign() >= 0 && hi.Cmp(m) < 0 {
				return a.Args[0]
			}
		}
		t := &Term{Op: "app", Sort: SInt, Name: "lift", Args: []*Term{a}, Lo: big0, Hi: new(big.Int).Sub(m, big1)}
		return t
	})
}

// rangeOf returns inclusive bounds of an Int term when cheaply known.
func rangeOf(t *Term) (lo, hi *big.Int) {
	switch t.Op {
	case "const":
		return t.Val, t.Val
	case "var", "app", "select":
		return t.Lo, t.Hi
	case "div":
		l, h := rangeOf(t.Args[0])
		if l != nil && h != nil && l.Sign() >= 0 {
			return new(big.Int).Div(l, t.Val), new(big.Int).Div(h, t.Val)
		}
		return nil, nil
	case "mod":
		return big0, new(big.Int).Sub(t.Val, big1)
	case "ite":
		l1, h1 := rangeOf(t.Args[1])
		l2, h2 := rangeOf(t.Args[2])
		if l1 == nil || l2 == nil || h1 == nil || h2 == nil {
			return nil, nil
		}
		lo, hi = l1, h1
		if l2.Cmp(lo) < 0 {
			lo = l2
		}
		if h2.Cmp(hi) > 0 {
			hi = h2
		}
		return
	case "poly":
		if t.Sort != SInt {
			return nil, nil
		}
		return t.P.Range()
	}
	return nil, nil
}

// ---------------------------------------------------------------------------- boolean ops

func mkNot(a *Term) *Term {
	if a.IsConst() {
		return mkBool(a.Val.Sign() == 0)
	}
	if a.Op == "not" {
		return a.Args[0]
	}
	return &Term{Op: "not", Sort: SBool, Args: []*Term{a}}
}

func mkAnd(ts ...*Term) *Term {
	var out []*Term
	seen := map[string]bool{}
	for _, t := range ts {
		if t.Op == "and" {
			for _, u := range t.Args {
				if !seen[u.Key()] {
					seen[u.Key()] = true
					out = append(out, u)
				}
			}
			continue
		}
		if t.IsConst() {
			if t.Val.Sign() == 0 {
				return tFalse
			}
			continue
		}
		if !seen[t.Key()] {
			seen[t.Key()] = true
			out = append(out, t)
		}
	}
	for _, t := range out {
		if seen[mkNot(t).Key()] {
			return tFalse
		}
	}
	switch len(out) {
	case 0:
		return tTrue
	case 1:
		return out[0]
	}
	return &Term{Op: "and", Sort: SBool, Args: out}
}

func mkOr(ts ...*Term) *Term {
	neg := make([]*Term, len(ts))
	for i, t := range ts {
		neg[i] = mkNot(t)
	}
	return mkNot(mkAnd(neg...))
}

func mkImplies(a, b *Term) *Term { return mkOr(mkNot(a), b) }
func mkIff(a, b *Term) *Term {
	if a.Key() == b.Key() {
		return tTrue
	}
	if a.IsConst() {
		if a.Val.Sign() != 0 {
			return b
		}
		return mkNot(b)
	}
	if b.IsConst() {
		return mkIff(b, a)
	}
	return &Term{Op: "=", Sort: SBool, Args: []*Term{a, b}}
}

func mkEq(a, b *Term) *Term {
	if a.Sort != b.Sort {
		// allow Int literal against residue
		if a.Sort == SInt && modulusOf(b.Sort) != nil {
			a = mkToRing(b.Sort, a)
		} else if b.Sort == SInt && modulusOf(a.Sort) != nil {
			b = mkToRing(a.Sort, b)
		} else {
			panic(fmt.Sprintf("mkEq sort mismatch %s:%s vs %s:%s", a.Key(), a.Sort, b.Key(), b.Sort))
		}
	}
	if a.Sort == SBool {
		return mkIff(a, b)
	}
	if a.Key() == b.Key() {
		return tTrue
	}
	if a.Op == "ite" && countLeaves(a) <= 16 && (isRing(a.Sort) || a.Sort == SPt) {
		c := a.Args[0]
		return mkOr(mkAnd(c, mkEq(a.Args[1], restrict(b, c, true))), mkAnd(mkNot(c), mkEq(a.Args[2], restrict(b, c, false))))
	}
	if b.Op == "ite" && countLeaves(b) <= 16 && (isRing(b.Sort) || b.Sort == SPt) {
		return mkEq(b, a)
	}
	if isRing(a.Sort) {
		d := polyOf(a).Add(polyOf(b).Scale(big.NewInt(-1)))
		if c, ok := d.IsConst(); ok {
			return mkBool(c.Sign() == 0)
		}
		if a.Sort == SInt {
			// range-based refutation
			if lo, hi := d.Range(); (lo != nil && lo.Sign() > 0) || (hi != nil && hi.Sign() < 0) {
				return tFalse
			}
		}
		// canonical orientation: compare d with 0 after sign normalisation
		d = d.SignNormalise()
		return &Term{Op: "=", Sort: SBool, Args: []*Term{fromPoly(d), mkRingConst(a.Sort, big0)}}
	}
	if a.Sort == SPt {
		d := linOf(a).Add(linOf(b).Scale(mkRingConst(SFn, big.NewInt(-1))))
		if d.IsZero() {
			return tTrue
		}
	}
	if a.IsConst() && b.IsConst() {
		return mkBool(a.Val.Cmp(b.Val) == 0)
	}
	if a.Key() > b.Key() {
		a, b = b, a
	}
	return &Term{Op: "=", Sort: SBool, Args: []*Term{a, b}}
}

func mkLe(a, b *Term) *Term { // a <= b (Int)
	if a.Sort != SInt || b.Sort != SInt {
		panic("mkLe on non-Int: " + a.Key() + " , " + b.Key())
	}
	d := polyOf(b).Add(polyOf(a).Scale(big.NewInt(-1))) // b - a >= 0
	if c, ok := d.IsConst(); ok {
		return mkBool(c.Sign() >= 0)
	}
	dt := fromPoly(d)
	if dt.Op != "ite" {
		lo, hi := rangeOf(dt)
		if lo != nil && lo.Sign() >= 0 {
			return tTrue
		}
		if hi != nil && hi.Sign() < 0 {
			return tFalse
		}
	}
	return &Term{Op: "<=", Sort: SBool, Args: []*Term{mkInt64(0), dt}}
}

func mkLt(a, b *Term) *Term { return mkNot(mkLe(b, a)) }
func mkGe(a, b *Term) *Term { return mkLe(b, a) }
func mkGt(a, b *Term) *Term { return mkLt(b, a) }

// ---------------------------------------------------------------------------- arrays

func mkSelect(arr, idx *Term) *Term {
	// read over write with syntactically decidable indices
	for arr.Op == "store" {
		e := mkEq(arr.Args[1], idx)
		if e.IsConst() {
			if e.Val.Sign() != 0 {
				return arr.Args[2]
			}
			arr = arr.Args[0]
			continue
		}
		break
	}
	t := &Term{Op: "select", Sort: SInt, Args: []*Term{arr, idx}}
	if arr.Hi != nil {
		t.Lo, t.Hi = arr.Lo, arr.Hi
	} else {
		base := arr
		for base.Op == "store" {
			base = base.Args[0]
		}
		t.Lo, t.Hi = base.Lo, base.Hi
	}
	return t
}

func mkStore(arr, idx, v *Term) *Term {
	t := &Term{Op: "store", Sort: SArr, Args: []*Term{arr, idx, v}}
	base := arr
	for base.Op == "store" {
		base = base.Args[0]
	}
	t.Lo, t.Hi = base.Lo, base.Hi
	return t
}

// ---------------------------------------------------------------------------- traversal

func (t *Term) walk(f func(*Term)) {
	seen := map[*Term]bool{}
	var rec func(*Term)
	rec = func(t *Term) {
		if seen[t] {
			return
		}
		seen[t] = true
		f(t)
		for _, a := range t.Args {
			rec(a)
		}
		if t.P != nil {
			for _, a := range t.P.Atoms() {
				rec(a)
			}
		}
		if t.L != nil {
			for _, e := range t.L.sorted() {
				rec(e.atom)
				rec(e.coef)
			}
		}
	}
	rec(t)
}

// substitute replaces atoms (by key) throughout a term, re-normalising.
func substitute(t *Term, sub map[string]*Term) *Term {
	return substituteMemo(t, sub, map[string]*Term{}, nil)
}

// substituteMemo: `seen`, when non-nil, collects the keys of all visited subterms (used to decide whether a
// new rewrite rule can invalidate memoised results).
func substituteMemo(t *Term, sub map[string]*Term, memo map[string]*Term, nz map[string]bool) *Term {
	if len(sub) == 0 && len(nz) == 0 {
		return t
	}
	var rec func(*Term) *Term
	rec = func(t *Term) *Term {
		if t.Op == "const" {
			return t
		}
		k := t.Key()
		if r, ok := memo[k]; ok {
			return r
		}
		var r *Term
		if s, ok := sub[k]; ok {
			r = s
		} else {
			switch t.Op {
			case "var":
				r = t
			case "poly":
				r = fromPolySubst(t.P, rec, nz)
			case "lin":
				r = fromLinSubst(t.L, rec)
			default:
				args := make([]*Term, len(t.Args))
				changed := false
				for i, a := range t.Args {
					args[i] = rec(a)
					if args[i] != a {
						changed = true
					}
				}
				if !changed {
					r = t
				} else {
					r = rebuild(t, args)
				}
			}
		}
		memo[k] = r
		return r
	}
	return rec(t)
}

func rebuild(t *Term, args []*Term) *Term {
	switch t.Op {
	case "ite":
		return mkIte(args[0], args[1], args[2])
	case "not":
		return mkNot(args[0])
	case "and":
		return mkAnd(args...)
	case "=":
		return mkEq(args[0], args[1])
	case "<=":
		return mkLe(args[0], args[1])
	case "div":
		return mkDivC(args[0], t.Val)
	case "mod":
		return mkModC(args[0], t.Val)
	case "select":
		return mkSelect(args[0], args[1])
	case "store":
		return mkStore(args[0], args[1], args[2])
	case "app":
		if h, ok := appRebuilders[t.Name]; ok {
			return h(t, args)
		}
		n := *t
		n.Args = args
		n.key = ""
		return &n
	}
	n := *t
	n.Args = args
	n.key = ""
	return &n
}

var appRebuilders = map[string]func(t *Term, args []*Term) *Term{}

func init() {
	appRebuilders["lift"] = func(t *Term, args []*Term) *Term { return mkLift(args[0]) }
	appRebuilders["toring"] = func(t *Term, args []*Term) *Term { return mkToRing(t.Sort, args[0]) }
	appRebuilders["fpow"] = func(t *Term, args []*Term) *Term { return mkPow(args[0], t.Val) }
	appRebuilders["smul"] = func(t *Term, args []*Term) *Term { return mkSmul(args[0], args[1]) }
}

func sortedKeys[V any](m map[string]V) []string {
	ks := make([]string, 0, len(m))
	for k := range m {
		ks = append(ks, k)
	}
	sort.Strings(ks)
	return ks
}

// pretty prints a term without digests, to a bounded depth (debugging aid).
func pretty(t *Term, depth int) string {
	if depth <= 0 {
		return "…"
	}
	switch t.Op {
	case "const", "var":
		k := t.Key()
		if len(k) > 24 && t.Op == "const" {
			return k[:10] + "…" + k[len(k)-6:]
		}
		return k
	case "poly":
		var sb strings.Builder
		sb.WriteString("[" + t.P.sort.String()[:2])
		for _, k := range t.P.sortedKeys() {
			e := t.P.t[k]
			c := e.c.String()
			if len(c) > 24 {
				c = c[:8] + "…" + c[len(c)-6:]
			}
			sb.WriteString(" + " + c)
			for _, f := range e.m.f {
				sb.WriteString("·" + pretty(f.atom, depth-1))
				if f.exp.Cmp(big1) != 0 {
					x := f.exp.String()
					if len(x) > 12 {
						x = x[:4] + "…" + x[len(x)-4:]
					}
					sb.WriteString("^" + x)
				}
			}
		}
		sb.WriteString("]")
		return sb.String()
	case "lin":
		return "{lin " + t.L.pretty(depth-1) + "}"
	}
	var sb strings.Builder
	sb.WriteString("(" + t.Op)
	if t.Name != "" {
		sb.WriteString(":" + t.Name)
	}
	if t.Val != nil {
		sb.WriteString("#" + t.Val.String())
	}
	for _, a := range t.Args {
		sb.WriteString(" " + pretty(a, depth-1))
	}
	sb.WriteString(")")
	return sb.String()
}
