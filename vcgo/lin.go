package main

// Pt terms: formal Fn-linear combinations of point atoms (module-nf).  The group has prime order N
// (assumption), so scalars live in Fn.

import (
	"math/big"
	"strings"
)

type linEntry struct {
	atom *Term
	coef *Term // sort SFn, ite-free
}

type Lin struct {
	t   map[string]linEntry
	key string
}

func newLin() *Lin { return &Lin{t: map[string]linEntry{}} }

func (l *Lin) sorted() []linEntry {
	ks := sortedKeys(l.t)
	out := make([]linEntry, len(ks))
	for i, k := range ks {
		out[i] = l.t[k]
	}
	return out
}

func (l *Lin) Key() string {
	if l.key == "" {
		var sb strings.Builder
		sb.WriteString("{Pt")
		for _, e := range l.sorted() {
			sb.WriteString(" " + e.coef.Key() + "·" + e.atom.Key())
		}
		sb.WriteString("}")
		l.key = shortKey(sb.String())
	}
	return l.key
}

func (l *Lin) IsZero() bool { return len(l.t) == 0 }

func (l *Lin) add(atom, coef *Term) {
	k := atom.Key()
	if e, ok := l.t[k]; ok {
		c := mkAdd(e.coef, coef)
		if c.IsConst() && c.Val.Sign() == 0 {
			delete(l.t, k)
		} else {
			l.t[k] = linEntry{atom, c}
		}
		return
	}
	if coef.IsConst() && coef.Val.Sign() == 0 {
		return
	}
	l.t[k] = linEntry{atom, coef}
}

func (l *Lin) Add(m *Lin) *Lin {
	r := newLin()
	for k, e := range l.t {
		r.t[k] = e
	}
	for _, e := range m.t {
		r.add(e.atom, e.coef)
	}
	return r
}

func (l *Lin) Scale(k *Term) *Lin {
	r := newLin()
	for _, e := range l.t {
		r.add(e.atom, mkMul(e.coef, k))
	}
	return r
}

func linOf(t *Term) *Lin {
	if t.Op == "lin" {
		return t.L
	}
	l := newLin()
	l.add(t, mkRingConst(SFn, big1))
	return l
}

func fromLin(l *Lin) *Term {
	if len(l.t) == 1 {
		for _, e := range l.t {
			if e.coef.IsConst() && e.coef.Val.Cmp(big1) == 0 {
				return e.atom
			}
		}
	}
	return &Term{Op: "lin", Sort: SPt, L: l}
}

var tPtO = &Term{Op: "lin", Sort: SPt, L: newLin()}

func mkPadd(a, b *Term) *Term {
	return lift2(a, b, func(a, b *Term) *Term { return fromLin(linOf(a).Add(linOf(b))) })
}

func mkSmul(k, p *Term) *Term {
	if k.Sort == SInt {
		k = mkToRing(SFn, k)
	}
	if k.Sort != SFn || p.Sort != SPt {
		panic("mkSmul sorts: " + k.Key() + " " + p.Key())
	}
	return lift2(k, p, func(k, p *Term) *Term { return fromLin(linOf(p).Scale(k)) })
}

func mkPneg(a *Term) *Term { return mkSmul(mkRingConst(SFn, bigN1()), a) }

func bigN1() *big.Int { return new(big.Int).Sub(bigN, big1) }

func fromLinSubst(l *Lin, rec func(*Term) *Term) *Term {
	res := tPtO
	for _, e := range l.sorted() {
		res = mkPadd(res, mkSmul(rec(e.coef), rec(e.atom)))
	}
	return res
}

func (l *Lin) pretty(depth int) string {
	s := ""
	for _, e := range l.sorted() {
		s += " + " + pretty(e.coef, depth) + "*" + pretty(e.atom, depth)
	}
	return s
}

// singleAtom: the atom p when the combination is exactly 1*p, else nil.
func (l *Lin) singleAtom() *Term {
	if len(l.t) != 1 {
		return nil
	}
	for _, e := range l.t {
		if e.coef.IsConst() && e.coef.Val.Cmp(big1) == 0 {
			return e.atom
		}
	}
	return nil
}
