package main

// Per-function verification driver: entry states (alias partitions, length splits), exit checks
// (postconditions, frame, invariants, panic conditions), vacuity guards; ground evaluation of
// package initialisers.

import (
	"fmt"
	"go/ast"
	"go/types"
	"math/big"
	"os"
	"regexp"
	"sort"
	"strconv"
	"strings"
	"time"

	"golang.org/x/tools/go/ssa"
)

type verifyCtx struct {
	propagatePanics bool
}

type paramSpec struct {
	name string
	typ  types.Type
}

// partitions enumerates all set partitions of n items as class labels (restricted growth strings).
func partitions(n int) [][]int {
	var out [][]int
	cur := make([]int, n)
	var rec func(i, maxc int)
	rec = func(i, maxc int) {
		if i == n {
			out = append(out, append([]int{}, cur...))
			return
		}
		for c := 0; c <= maxc+1; c++ {
			cur[i] = c
			m := maxc
			if c > m {
				m = c
			}
			rec(i+1, m)
		}
	}
	if n == 0 {
		return [][]int{{}}
	}
	cur[0] = 0
	rec(1, 0)
	return out
}

type aliasPlan struct {
	label   string
	rep     map[int]int   // param index -> representative param index (itself if none)
	elem    map[int]int   // slice-of-pointers param index -> pointer param index that is one of its elements
	elemIdx map[int]int64 // for fixed-length slices: the position of that element
}

func (e *Engine) aliasPlans(fn *ssa.Function, c *Contract) []aliasPlan {
	// group pointer params by identical pointee type
	groups := map[string][]int{}
	var order []string
	for i, p := range fn.Params {
		pt, ok := underlying(p.Type()).(*types.Pointer)
		if !ok {
			continue
		}
		k := types.TypeString(pt.Elem(), nil)
		if _, ok := groups[k]; !ok {
			order = append(order, k)
		}
		groups[k] = append(groups[k], i)
	}
	plans := []aliasPlan{{label: "", rep: map[int]int{}}}
	if c.Aliasing == "none" {
		return plans
	}
	for _, k := range order {
		g := groups[k]
		if len(g) < 2 {
			continue
		}
		var next []aliasPlan
		for _, base := range plans {
			for _, part := range partitions(len(g)) {
				np := aliasPlan{rep: map[int]int{}}
				for a, b := range base.rep {
					np.rep[a] = b
				}
				first := map[int]int{}
				var lab []string
				distinct := true
				for j, cl := range part {
					if f, ok := first[cl]; ok {
						np.rep[g[j]] = g[f]
						distinct = false
					} else {
						first[cl] = j
					}
				}
				if !distinct {
					classes := map[int][]string{}
					for j, cl := range part {
						classes[cl] = append(classes[cl], fn.Params[g[j]].Name())
					}
					var cs []int
					for cl := range classes {
						cs = append(cs, cl)
					}
					sort.Ints(cs)
					for _, cl := range cs {
						if len(classes[cl]) > 1 {
							lab = append(lab, strings.Join(classes[cl], "="))
						}
					}
				}
				skip := false
				for _, grp := range c.NoAlias {
					in := map[string]bool{}
					for _, n := range grp {
						in[n] = true
					}
					repOf := func(i int) int {
						if r, ok := np.rep[i]; ok {
							return r
						}
						return i
					}
					for a := range fn.Params {
						for b := range fn.Params {
							if a < b && in[fn.Params[a].Name()] && in[fn.Params[b].Name()] && repOf(a) == repOf(b) {
								skip = true
							}
						}
					}
				}
				if skip {
					continue
				}
				np.label = base.label
				if len(lab) > 0 {
					if np.label != "" {
						np.label += ","
					}
					np.label += strings.Join(lab, ",")
				}
				next = append(next, np)
			}
		}
		plans = next
	}
	// a pointer parameter may also be an element of a slice-of-pointers parameter
	for vi, vp := range fn.Params {
		sl, ok := underlying(vp.Type()).(*types.Slice)
		if !ok {
			continue
		}
		ept, ok := underlying(sl.Elem()).(*types.Pointer)
		if !ok {
			continue
		}
		var next []aliasPlan
		for _, base := range plans {
			next = append(next, base)
			for pi, pp := range fn.Params {
				ppt, ok := underlying(pp.Type()).(*types.Pointer)
				if !ok || !types.Identical(ppt.Elem(), ept.Elem()) {
					continue
				}
				if _, isRep := base.rep[pi]; isRep {
					continue
				}
				np := aliasPlan{rep: base.rep, elem: map[int]int{}, label: base.label}
				for k, v := range base.elem {
					np.elem[k] = v
				}
				np.elem[vi] = pi
				if np.label != "" {
					np.label += ","
				}
				np.label += fmt.Sprintf("%s in %s", pp.Name(), vp.Name())
				next = append(next, np)
			}
		}
		plans = next
	}
	return plans
}

type splitCase struct {
	label   string
	lens    map[string]int64 // param name -> fixed length
	assume  []string         // extra assumptions (spec text)
	noPrune bool
	vals    map[string]int64  // scalar parameter fixed to a value
	nils    map[string]bool   // pointer parameter is nil in this variant
	dyns    map[string]string // interface parameter: "nil" | "is:<Type>" | "other:<Type>" (dynamic type is / is not *Type)
}

var splitValRe = regexp.MustCompile(`^value\s+(\w+)\s+in\s+(\d+)\.\.(\d+)$`)

var splitRe = regexp.MustCompile(`^len\((\w+)\)\s+in\s+(\d+)\.\.(\d+)(\s+else)?(?:\s+step\s+(\d+)(?:/(\d+))?)?$`)

func (e *Engine) splitCases(c *Contract) []splitCase {
	cases := []splitCase{{lens: map[string]int64{}}}
	for _, sp := range c.Splits {
		if strings.HasPrefix(sp.Text, "case ") {
			continue
		}
		if strings.HasPrefix(sp.Text, "nil ") {
			// two variants: the pointer parameter is nil / is not nil
			name := strings.TrimSpace(strings.TrimPrefix(sp.Text, "nil "))
			var next []splitCase
			for _, base := range cases {
				for _, isNil := range []bool{false, true} {
					nc := splitCase{label: base.label, lens: base.lens, assume: base.assume, noPrune: base.noPrune, vals: base.vals, nils: map[string]bool{}}
					for k, v := range base.nils {
						nc.nils[k] = v
					}
					nc.nils[name] = isNil
					if nc.label != "" {
						nc.label += ","
					}
					if isNil {
						nc.label += name + "=nil"
					} else {
						nc.label += name + "!=nil"
					}
					next = append(next, nc)
				}
			}
			cases = next
			continue
		}
		if strings.HasPrefix(sp.Text, "dyn ") {
			// three variants of an interface parameter: nil / dynamic type *T (T a struct of this package) / any other type
			f := strings.Fields(strings.TrimPrefix(sp.Text, "dyn "))
			if len(f) == 3 && f[2] == "value" {
				f = []string{f[0], "=" + f[1]} // dynamic type T itself (a value type), not *T
			}
			if len(f) != 2 {
				e.fail("split dyn needs: split dyn <param> <Type> [value]")
			}
			var next []splitCase
			for _, base := range cases {
				for _, kind := range []string{"nil", "is:" + f[1], "other:" + f[1]} {
					nc := base
					nc.dyns = map[string]string{}
					for k, v := range base.dyns {
						nc.dyns[k] = v
					}
					nc.dyns[f[0]] = kind
					if nc.label != "" {
						nc.label += ","
					}
					nc.label += f[0] + "~" + kind
					next = append(next, nc)
				}
			}
			cases = next
			continue
		}
		if strings.HasPrefix(sp.Text, "cond ") {
			// two variants: the condition over entry values holds / does not hold
			cond := strings.TrimSpace(strings.TrimPrefix(sp.Text, "cond "))
			var next []splitCase
			for _, base := range cases {
				for _, pos := range []bool{true, false} {
					nc := splitCase{label: base.label, lens: map[string]int64{}}
					for k, v := range base.lens {
						nc.lens[k] = v
					}
					txt := cond
					lab := cond
					if !pos {
						txt = "!(" + cond + ")"
						lab = "!(" + cond + ")"
					}
					if nc.label != "" {
						nc.label += ","
					}
					nc.label += lab
					nc.assume = append(append([]string{}, base.assume...), txt)
					nc.noPrune = true
					next = append(next, nc)
				}
			}
			cases = next
			continue
		}
		if mv := splitValRe.FindStringSubmatch(strings.TrimSpace(sp.Text)); mv != nil {
			// value split of a scalar parameter (complete when the precondition bounds it)
			lo, _ := strconv.ParseInt(mv[2], 10, 64)
			hi, _ := strconv.ParseInt(mv[3], 10, 64)
			var next []splitCase
			for _, base := range cases {
				for v := lo; v <= hi; v++ {
					nc := splitCase{label: base.label, lens: map[string]int64{}, assume: base.assume, noPrune: base.noPrune, vals: map[string]int64{}}
					for k, x := range base.lens {
						nc.lens[k] = x
					}
					for k, x := range base.vals {
						nc.vals[k] = x
					}
					nc.vals[mv[1]] = v
					if nc.label != "" {
						nc.label += ","
					}
					nc.label += fmt.Sprintf("%s=%d", mv[1], v)
					next = append(next, nc)
				}
			}
			cases = next
			continue
		}
		m := splitRe.FindStringSubmatch(strings.TrimSpace(sp.Text))
		if m == nil {
			e.fail("bad split clause %q", sp.Text)
		}
		lo, _ := strconv.ParseInt(m[2], 10, 64)
		hi, _ := strconv.ParseInt(m[3], 10, 64)
		var next []splitCase
		step := int64(1)
		if len(m) > 5 && m[5] != "" {
			step, _ = strconv.ParseInt(m[5], 10, 64)
			if len(m) > 6 && m[6] != "" && e.tier == "thorough" {
				step, _ = strconv.ParseInt(m[6], 10, 64) // `step q/t`: q in the quick tier, t in the thorough tier
			}
		}
		for _, base := range cases {
			for l := lo; l <= hi; l += step {
				nc := splitCase{label: base.label, lens: map[string]int64{}, assume: base.assume}
				for k, v := range base.lens {
					nc.lens[k] = v
				}
				nc.lens[m[1]] = l
				if nc.label != "" {
					nc.label += ","
				}
				nc.label += fmt.Sprintf("len(%s)=%d", m[1], l)
				next = append(next, nc)
			}
			if m[4] != "" {
				nc := splitCase{label: base.label, lens: map[string]int64{}}
				for k, v := range base.lens {
					nc.lens[k] = v
				}
				if nc.label != "" {
					nc.label += ","
				}
				nc.label += fmt.Sprintf("len(%s)=other", m[1])
				nc.assume = append(append([]string{}, base.assume...), fmt.Sprintf("len(%s) < %d || len(%s) > %d", m[1], lo, m[1], hi))
				next = append(next, nc)
			}
		}
		cases = next
	}
	return cases
}

// makeParamValue builds the symbolic entry value of a parameter.
func (e *Engine) makeParamValue(st *State, name string, t types.Type, fixedLen int64, depth int) Value {
	switch u := underlying(t).(type) {
	case *types.Basic:
		if u.Info()&types.IsString != 0 {
			return &StrVal{abs: mkIntVarR("str$"+name, nil, nil)}
		}
		if u.Kind() == types.UnsafePointer {
			e.fail("unsafe.Pointer parameter %s", name)
		}
		return e.symbolicScalar(name, t)
	case *types.Pointer:
		r := e.newRegion(name, u.Elem(), false)
		e.fillParamRegion(st, r, nil, u.Elem(), name, depth)
		return &PtrVal{reg: r, typ: t}
	case *types.Slice:
		return e.makeParamSlice(st, name, u.Elem(), fixedLen, depth)
	case *types.Interface:
		return &IfaceVal{null: mkVar(name+".isnil", SBool), tagT: mkIntVarR(name+".dyn", nil, nil), obj: name}
	case *types.Struct, *types.Array:
		r := e.newRegion(name, t, false)
		e.fillParamRegion(st, r, nil, t, name, depth)
		return e.loadPath(st, r, nil, t)
	}
	e.fail("unsupported parameter type %s for %s", t, name)
	return nil
}

func (e *Engine) makeParamSlice(st *State, name string, elem types.Type, fixedLen int64, depth int) Value {
	if fixedLen >= 0 {
		at := types.NewArray(elem, fixedLen)
		r := e.newRegion(name, at, false)
		e.fillParamRegion(st, r, nil, at, name, depth)
		n := mkInt64(fixedLen)
		return &SliceVal{reg: r, off: mkInt64(0), length: n, capacity: n, elem: elem, backingN: fixedLen}
	}
	if pt, ok := underlying(elem).(*types.Pointer); ok {
		// slice of pointers: the elements form a family of lazily symbolic objects
		r := e.newRegion(name, elem, false)
		r.dyn = true
		r.family = pt.Elem()
		n := mkIntVarR("len("+name+")", big0, big.NewInt(1<<40))
		r.dynLen = n
		cp := mkIntVarR("cap("+name+")", big0, big.NewInt(1<<40))
		st.assume(mkLe(n, cp))
		return &SliceVal{reg: r, off: mkInt64(0), length: n, capacity: cp, elem: elem, backingN: -1}
	}
	if !isScalarType(elem) {
		e.fail("slice parameter %s of non-scalar elements needs a length split", name)
	}
	r := e.newRegion(name, elem, false)
	r.dyn = true
	n := mkIntVarR("len("+name+")", big0, big.NewInt(1<<40))
	r.dynLen = n
	lo, hi := intRange(elem)
	st.mem.cells[pathKey(r.id, nil)] = &Term{Op: "var", Sort: SArr, Name: name + "[]", Lo: lo, Hi: hi}
	cp := mkIntVarR("cap("+name+")", big0, big.NewInt(1<<40))
	st.assume(mkLe(n, cp))
	return &SliceVal{reg: r, off: mkInt64(0), length: n, capacity: cp, elem: elem, backingN: -1}
}

func (e *Engine) fillParamRegion(st *State, r *Region, path []int, t types.Type, name string, depth int) {
	leafPaths(t, nil, func(p []int, lt types.Type) {
		full := extend(path, p...)
		nm := name + pathName(r.typ, full)
		switch u := underlying(lt).(type) {
		case *types.Basic:
			if u.Info()&types.IsString != 0 {
				st.mem.cells[pathKey(r.id, full)] = &StrVal{}
				return
			}
			if u.Kind() == types.UnsafePointer {
				st.mem.cells[pathKey(r.id, full)] = &PtrVal{null: true, typ: lt}
				return
			}
			st.mem.cells[pathKey(r.id, full)] = e.symbolicScalar(nm, lt)
		case *types.Pointer:
			if depth >= 3 {
				st.mem.cells[pathKey(r.id, full)] = &PtrVal{null: true, typ: lt}
				return
			}
			st.mem.cells[pathKey(r.id, full)] = e.makeParamValue(st, nm, lt, -1, depth+1)
		case *types.Slice:
			st.mem.cells[pathKey(r.id, full)] = e.makeParamSlice(st, nm, u.Elem(), -1, depth+1)
		case *types.Interface:
			st.mem.cells[pathKey(r.id, full)] = &IfaceVal{null: mkVar(nm+".isnil", SBool), tagT: mkIntVarR(nm+".dyn", nil, nil), obj: nm}
		default:
			e.fail("unsupported field type %s at %s", lt, nm)
		}
	})
}

// verifyFunction generates all obligations of one contracted function.
func (e *Engine) verifyFunction(fn *ssa.Function, c *Contract) (err error) {
	pkg, rel := e.funcKey(fn)
	short := pkg[strings.LastIndex(pkg, "/")+1:]
	e.curFunc = short + "." + rel
	watchedFunc.Store(e.curFunc)
	e.curProps = c.Props
	e.curContract = c
	e.curAliases = e.localAliases(pkg+"::"+rel, fn)
	defer func() {
		if r := recover(); r != nil {
			if ee, ok := r.(engineError); ok {
				err = fmt.Errorf("%s: %s", e.curFunc, ee.msg)
				return
			}
			if os.Getenv("VCGO_PANIC") != "" {
				panic(r)
			}
			err = fmt.Errorf("%s: internal engine failure: %v (%s)", e.curFunc, r, panicSite())
		}
	}()
	if fn.Blocks == nil {
		return fmt.Errorf("%s: no body in this build configuration", e.curFunc)
	}
	if c.Mode == "bv" {
		e.variant = ""
		e.verifyBV(fn, c)
		return nil
	}
	plans := e.aliasPlans(fn, c)
	cases := e.splitCases(c)
	e.anyReturn = false
	defer func() {
		if err == nil && !e.anyReturn && len(c.Ensures) > 0 {
			e.errors = append(e.errors, fmt.Sprintf("%s: no normal exit reachable in any variant", e.curFunc))
		}
	}()
	for _, plan := range plans {
		for _, sc := range cases {
			// "p is an element of vec" with vec of fixed length n: one variant per position (none if n = 0)
			idxChoices := []map[int]int64{nil}
			for vi := range plan.elem {
				if n, fixed := sc.lens[fn.Params[vi].Name()]; fixed {
					var next []map[int]int64
					for _, base := range idxChoices {
						for j := int64(0); j < n; j++ {
							m := map[int]int64{vi: j}
							for k, v := range base {
								m[k] = v
							}
							next = append(next, m)
						}
					}
					idxChoices = next
				}
			}
			for _, choice := range idxChoices {
				var labs []string
				if plan.label != "" {
					l := "alias=" + plan.label
					for vi, j := range choice {
						l += fmt.Sprintf("@%s[%d]", fn.Params[vi].Name(), j)
					}
					labs = append(labs, l)
				}
				if sc.label != "" {
					labs = append(labs, sc.label)
				}
				e.variant = strings.Join(labs, ";")
				p2 := plan
				p2.elemIdx = choice
				e.verifyVariant(fn, c, p2, sc)
			}
		}
	}
	e.variant = ""
	return nil
}

func (e *Engine) verifyVariant(fn *ssa.Function, c *Contract, plan aliasPlan, sc splitCase) {
	e.steps = 0
	budget := 120
	if c.Timeout > 0 {
		budget = c.Timeout * 4
	}
	e.deadline = time.Now().Add(time.Duration(budget) * time.Second)
	defer func() { e.deadline = time.Time{} }()
	if os.Getenv("VCGO_DEBUG") != "" {
		fmt.Fprintf(os.Stderr, "[verify] %s [%s]\n", e.curFunc, e.variant)
	}
	st := &State{mem: e.gmem.clone(), hypKeys: map[string]bool{}, subst: map[string]*Term{}, names: map[string]Value{}, cuts: map[string]bool{}, weak: map[string]bool{}, visits: map[*ssa.BasicBlock]int{}, binds: map[string]int{}, lastBind: map[string]ssa.Value{}, inLoop: map[*ssa.BasicBlock]bool{}, ghost: map[string]Value{}}
	args := make([]Value, len(fn.Params))
	params := map[string]Value{}
	for i, p := range fn.Params {
		if rep, ok := plan.rep[i]; ok {
			args[i] = args[rep]
		} else {
			fl := int64(-1)
			if l, ok := sc.lens[p.Name()]; ok {
				fl = l
			}
			args[i] = e.makeParamValue(st, p.Name(), p.Type(), fl, 0)
			if v, ok := sc.vals[p.Name()]; ok {
				args[i] = mkInt64(v)
			}
			if sc.nils[p.Name()] {
				switch underlying(p.Type()).(type) {
				case *types.Pointer:
					args[i] = &PtrVal{null: true, typ: p.Type()}
				case *types.Interface:
					args[i] = &IfaceVal{null: tTrue}
				case *types.Slice:
					args[i] = e.zeroValue(p.Type())
				}
			} else if _, has := sc.nils[p.Name()]; has {
				if iv, ok := args[i].(*IfaceVal); ok {
					iv.null = tFalse
				}
			}
			if kind, ok := sc.dyns[p.Name()]; ok {
				iv, isI := args[i].(*IfaceVal)
				if !isI {
					e.fail("split dyn %s: not an interface parameter", p.Name())
				}
				switch {
				case kind == "nil":
					args[i] = &IfaceVal{null: tTrue}
				default:
					tn := kind[strings.Index(kind, ":")+1:]
					byValue := strings.HasPrefix(tn, "=")
					tn = strings.TrimPrefix(tn, "=")
					obj := fn.Pkg.Pkg.Scope().Lookup(tn)
					if obj == nil {
						e.fail("split dyn %s: unknown type %s", p.Name(), tn)
					}
					var pt types.Type = types.NewPointer(obj.Type())
					if byValue {
						pt = obj.Type()
						if strings.HasPrefix(kind, "is:") {
							args[i] = &IfaceVal{null: tFalse, dyn: pt, val: e.zeroValue(pt)}
							if s, ok := underlying(pt).(*types.Struct); !ok || s.NumFields() != 0 {
								e.fail("split dyn ... value: only zero-size struct types are supported")
							}
						} else {
							iv.null = tFalse
							iv.notDyn = append(iv.notDyn, pt)
						}
					} else if strings.HasPrefix(kind, "is:") {
						pv := e.makeParamValue(st, p.Name()+".(*"+tn+")", pt, -1, 0)
						args[i] = &IfaceVal{null: tFalse, dyn: pt, val: pv}
						for _, inv := range e.invariantsOfValue(st, pv, pt, p.Name()+".(*"+tn+")") {
							st.assume(inv.t)
						}
					} else {
						iv.null = tFalse
						iv.notDyn = append(iv.notDyn, pt)
					}
				}
			}
			if t, ok := args[i].(*Term); ok && t.Op == "var" && t.Sort == SInt {
				for _, r := range c.Requires {
					if m := regexp.MustCompile(`^` + regexp.QuoteMeta(p.Name()) + ` <= (\d+)$`).FindStringSubmatch(strings.TrimSpace(r.Text)); m != nil {
						hi, _ := new(big.Int).SetString(m[1], 10)
						if t.Hi == nil || hi.Cmp(t.Hi) < 0 {
							args[i] = mkIntVarR(t.Name, t.Lo, hi)
						}
					}
				}
			}
		}
		params[p.Name()] = args[i]
	}
	for vi, pi := range plan.elem {
		sv := args[vi].(*SliceVal)
		if j, fixed := plan.elemIdx[vi]; fixed && !sv.reg.dyn {
			// fixed-length slice: element j *is* the pointer parameter
			st.mem.cells[pathKey(sv.reg.id, extend(sv.path, int(j)))] = args[pi]
			continue
		}
		sv.reg.aliasPtr = args[pi].(*PtrVal)
		k := mkIntVarR("aliasidx("+fn.Params[vi].Name()+")", big0, big.NewInt(1<<40))
		sv.reg.aliasIdx = k
		st.assume(mkLt(k, sv.length))
	}
	// free variables of closures verified as functions
	fvals := map[ssa.Value]Value{}
	for _, fv := range fn.FreeVars {
		v := e.makeParamValue(st, fv.Name(), fv.Type(), -1, 0)
		fvals[fv] = v
		params[fv.Name()] = v
	}
	env := e.specEnv(st, nil, fn, c, args)
	for k, v := range params {
		env.vars[k] = v
	}
	// type invariants of parameters
	seenInv := map[string]bool{}
	for i, p := range fn.Params {
		for _, inv := range e.invariantsOfValue(st, args[i], p.Type(), p.Name()) {
			if c.Weak[p.Name()] && (inv.top || inv.composite) {
				continue
			}
			if !seenInv[inv.t.Key()] {
				seenInv[inv.t.Key()] = true
				st.assume(inv.t)
			}
		}
	}
	for _, r := range c.Requires {
		st.assume(env.boolTerm(r.Expr))
	}
	for _, a := range sc.assume {
		x, err := parseSpecExpr(a)
		if err != nil {
			e.fail("%v", err)
		}
		st.assume(env.boolTerm(x))
	}
	// lemma instances over entry values
	for _, u := range c.Using {
		func() {
			defer func() {
				if r := recover(); r != nil {
					if _, ok := r.(engineError); !ok {
						panic(r)
					}
				}
			}()
			for _, h := range e.instantiateLemma(env, u) {
				st.assume(h)
			}
		}()
	}
	e.eagerPrune = len(sc.assume) > 0 && !sc.noPrune
	defer func() { e.eagerPrune = false }()
	st.entryH = len(st.hyps)
	st.entrySubst = make(map[string]*Term, len(st.subst))
	for k, v := range st.subst {
		st.entrySubst[k] = v
	}
	st.entryNonzero = map[string]bool{}
	for k := range st.nonzero {
		st.entryNonzero[k] = true
	}
	if e.templateMode {
		e.contractTemplate(st, fn, c, args)
		return
	}
	old := st.fork()
	// vacuity guard: the entry assumptions must be satisfiable
	e.addCover(st, "entry")

	fr := &Frame{fn: fn, vals: map[ssa.Value]Value{}, loopHdr: loopHeaders(fn), contract: c, topLevel: true, params: params, old: old,
		ctx: &verifyCtx{propagatePanics: len(c.Panics) > 0}}
	for i, p := range fn.Params {
		fr.vals[p] = args[i]
	}
	for k, v := range fvals {
		fr.vals[k] = v
	}
	exits := e.execFrom(st, fr, fn.Blocks[0], nil, 0)
	nret := 0
	for _, ex := range exits {
		switch ex.kind {
		case "return":
			ex := ex
			r := e.guarded(ex.st, func() []Exit { e.checkReturn(ex, fr, fn, c, args, params, old); return []Exit{ex} })
			nret += len(r)
		case "panic":
			ex := ex
			e.guarded(ex.st, func() []Exit { e.checkPanic(ex, fr, fn, c, args, params, old); return nil })
		}
	}
	for _, a := range c.Asserts {
		reached, anyRet := false, false
		for _, ex := range exits {
			if ex.kind == "return" {
				anyRet = true
				if ex.st.cuts[a.Name] {
					reached = true
				}
			}
		}
		if anyRet && !reached {
			e.errors = append(e.errors, fmt.Sprintf("%s [%s]: cut %s was never reached", e.curFunc, e.variant, a.Name))
		}
	}
	if nret > 0 {
		e.anyReturn = true
	}
}

func (e *Engine) addCover(st *State, label string) {
	name := fmt.Sprintf("%s#cover:%s", e.curFunc, label)
	if e.variant != "" {
		name += "/" + e.variant
	}
	e.oblNames[name]++
	if n := e.oblNames[name]; n > 1 {
		name = fmt.Sprintf("%s/path=%d", name, n)
	}
	o := &Obligation{Name: name, Kind: "cover", Func: e.curFunc, Props: e.curProps, Goal: tFalse, Hyps: append([]*Term{}, st.hyps...), Text: "the path condition at " + label + " is satisfiable (vacuity guard)", Variant: e.variant}
	e.obls = append(e.obls, o)
}

func (e *Engine) checkReturn(ex Exit, fr *Frame, fn *ssa.Function, c *Contract, args []Value, params map[string]Value, old *State) {
	st := ex.st
	env := e.specEnv(st, old, fn, c, args)
	for k, v := range params {
		env.vars[k] = v
	}
	env.results = ex.results
	// cut points / intermediate lemmas positioned at the return
	e.checkCutsAt(st, fr, true)
	// lemma instances requested by the contract
	for _, u := range c.Using {
		e.tryLemma(st, env, u)
	}
	for i, en := range c.Proves {
		g := env.boolTerm(en.Expr)
		e.addObligation(st, fr, "proves", strconv.Itoa(i), g, en.Text)
		st.assume(g)
	}
	// `fresh x`: the object handed out was allocated by this call (or is nil), so it aliases nothing the
	// caller or the receiver already holds
	for _, f := range c.Fresh {
		for _, x := range f.Exprs {
			ok := false
			switch p := env.eval(x).(type) {
			case *PtrVal:
				ok = p.null || (p.reg != nil && p.reg.fresh && env.freshSince(p.reg))
			case *SliceVal:
				ok = p.reg == nil || (p.reg.fresh && env.freshSince(p.reg))
			case *RefVal:
				ok = p.reg != nil && p.reg.fresh && env.freshSince(p.reg)
			case *AggVal, *Term:
				ok = true // values are copies
			}
			e.addObligation(st, fr, "fresh", exprString(x), mkBool(ok), "fresh "+exprString(x)+": allocated by this call (or nil)")
			// deep freshness: a fresh object of a pointer-holding struct type (a key object) owns its internals --
			// every pointer / slice stored in it was allocated by this call too (or is nil), unless the contract
			// says `shares x.f` (ownership of that field is handed over by the caller)
			if pv, isPtr := env.eval(x).(*PtrVal); isPtr && ok && !pv.null && pv.reg != nil {
				shared := map[string]bool{}
				for _, sc := range c.Shares {
					for _, sx := range sc.Exprs {
						shared[exprString(sx)] = true
					}
				}
				e.deepFresh(st, fr, env, x, pv.typ, shared, 0)
			}
		}
	}
	for i, en := range c.Ensures {
		// implication introduction: `A ==> B` is proved by assuming A (which may enable lemma instances
		// whose hypotheses are A) and proving B.
		if ce, ok := en.Expr.(*ast.CallExpr); ok {
			if id, ok := ce.Fun.(*ast.Ident); ok && id.Name == "implies" && (len(c.Using) > 0 || c.Options["field"]) {
				st2 := st.fork()
				env2 := *env
				env2.st = st2
				a := st2.sub(env2.boolTerm(ce.Args[0]))
				if knownFalse(st2, a) {
					e.addObligation(st2, fr, "ensures", strconv.Itoa(i), tTrue, en.Text)
					continue
				}
				st2.assume(a)
				for _, u := range c.Using {
					e.tryLemma(st2, &env2, u)
				}
				e.consequentObligation(st2, fr, &env2, a, ce.Args[1], en, i)
				continue
			}
		}
		e.ensuresObligation(st, fr, env, en, i)
	}
	if len(c.Panics) > 0 {
		env2 := e.specEnv(old, old, fn, c, args)
		for k, v := range params {
			env2.vars[k] = v
		}
		var pcs []*Term
		for _, p := range c.Panics {
			pcs = append(pcs, env2.boolTerm(p.Expr))
		}
		e.addObligation(st, fr, "panics-not", "", mkNot(mkOr(pcs...)), "normal return implies the panic condition is false")
	}
	// frame and invariants
	if !c.NoFrame {
		e.checkFrame(st, fr, fn, c, args, params, old, env)
	}
	// invariants of results
	rs := fn.Signature.Results()
	weakRoot := e.weakRoots(fn, c, args)
	for i, r := range ex.results {
		isWeak := false
		if p, ok := r.(*PtrVal); ok && !p.null && !p.reg.dyn {
			rr, pp, _ := e.resolveWindow(p.reg, p.path)
			isWeak = weakRoot[pathKey(rr.id, pp)]
		}
		for _, inv := range e.invariantsOfValue(st, r, rs.At(i).Type(), fmt.Sprintf("result%d", i)) {
			if isWeak && inv.top {
				continue
			}
			e.addObligation(st, fr, "inv", inv.label, inv.t, "type invariant of "+inv.label)
		}
	}
}

func (e *Engine) checkPanic(ex Exit, fr *Frame, fn *ssa.Function, c *Contract, args []Value, params map[string]Value, old *State) {
	env := e.specEnv(old, old, fn, c, args)
	for k, v := range params {
		env.vars[k] = v
	}
	if len(c.Panics) == 0 {
		e.addObligation(ex.st, fr, "nopanic", "reach", tFalse, "panic is unreachable: "+ex.msg)
		return
	}
	var pcs []*Term
	for _, p := range c.Panics {
		pcs = append(pcs, env.boolTerm(p.Expr))
	}
	e.addObligation(ex.st, fr, "panics", "", mkOr(pcs...), "panic only under the declared condition ("+ex.msg+")")
}

// checkFrame: every cell of a pre-existing region that changed must be covered by `modifies`;
// type invariants of modified objects must hold.
func (e *Engine) checkFrame(st *State, fr *Frame, fn *ssa.Function, c *Contract, args []Value, params map[string]Value, old *State, env *SpecEnv) {
	allowed := map[string]bool{}
	envOld := e.specEnv(old, old, fn, c, args)
	for k, v := range params {
		envOld.vars[k] = v
	}
	var modCells []cellRef
	var dynAllowed []*SliceVal
	for _, m := range c.Modifies {
		for _, x := range m.Exprs {
			cells, dyn := envOld.lvalueCells(x)
			for _, cr := range cells {
				allowed[pathKey(cr.reg.id, cr.path)] = true
				modCells = append(modCells, cr)
			}
			dynAllowed = append(dynAllowed, dyn...)
		}
	}
	// abstract states of stream / hash objects that existed at entry: unchanged unless listed
	ghostAllowed := map[string]bool{}
	for _, m := range c.Modifies {
		for _, x := range m.Exprs {
			if id, isGhost := envOld.ghostStateItem(x); isGhost && id != "" {
				ghostAllowed[id] = true
			}
		}
	}
	var gkeys []string
	for k := range st.ghost {
		if strings.HasPrefix(k, "state:") {
			gkeys = append(gkeys, k)
		}
	}
	sort.Strings(gkeys)
	for _, k := range gkeys {
		id := strings.TrimPrefix(k, "state:")
		if ghostAllowed[id] || !strings.HasPrefix(id, "o:") || strings.Contains(id, "!") {
			continue // objects identified by a region, or created by this call (fresh names carry a "!")
		}
		if _, isHash := st.ghost["hashsize:"+id]; isHash {
			if _, existed := old.ghost["hashsize:"+id]; !existed {
				continue // created by this call
			}
		}
		nv := st.ghost[k].(*Term)
		if nv.Key() != old.objState(id).Key() {
			e.addObligation(st, fr, "frame", "rdstate("+id+")", st.sub(mkEq(nv, old.objState(id))), "abstract state of "+id+" changed but is not listed in `modifies`")
		}
	}
	regByID := map[int]*Region{}
	for _, a := range args {
		collectRegions(e, old, a, regByID)
	}
	for _, g := range e.globals {
		regByID[g.id] = g
	}
	for _, fr := range e.familyRegs {
		regByID[fr.id] = fr
	}
	// strict frame: a cell of a parameter / global object that is not listed in `modifies` must not be stored to
	// at all -- not even with the value it already holds (such a store would still race with concurrent readers)
	var wkeys []string
	for k := range st.written {
		wkeys = append(wkeys, k)
	}
	sort.Strings(wkeys)
	for _, k := range wkeys {
		if allowed[k] {
			continue
		}
		ov, existed := old.mem.cells[k]
		if !existed || !sameValue(st.mem.cells[k], ov) {
			continue // reported by the value comparison below
		}
		id, _ := strconv.Atoi(strings.SplitN(k[1:], "/", 2)[0])
		reg := regByID[id]
		if reg == nil {
			continue
		}
		okDyn := false
		for _, d := range dynAllowed {
			if d.reg.id == id {
				okDyn = true
			}
		}
		if okDyn {
			continue
		}
		e.addObligation(st, fr, "frame", reg.name+"@"+k+":stored", tFalse, "cell of "+reg.name+" outside `modifies` was stored to (with the value it already had)")
	}
	keys := make([]string, 0, len(st.mem.cells))
	for k := range st.mem.cells {
		keys = append(keys, k)
	}
	sort.Strings(keys)
	for _, k := range keys {
		nv := st.mem.cells[k]
		ov, existed := old.mem.cells[k]
		if !existed {
			id, _ := strconv.Atoi(strings.SplitN(k[1:], "/", 2)[0])
			if reg := regByID[id]; reg != nil && reg.lazy {
				// lazily symbolic region: any materialised cell is a write
				e.addObligation(st, fr, "frame", reg.name+"@"+k, tFalse, "cell of "+reg.name+" outside `modifies` was written")
			}
			continue
		}
		if sameValue(nv, ov) {
			continue
		}
		id, _ := strconv.Atoi(strings.SplitN(k[1:], "/", 2)[0])
		reg := regByID[id]
		if reg == nil {
			continue // not reachable from parameters or globals: local
		}
		if allowed[k] {
			continue
		}
		// dynamic region: allowed ranges
		okDyn := false
		for _, d := range dynAllowed {
			if d.reg.id == id {
				okDyn = true
			}
		}
		if okDyn {
			continue
		}
		nt, ok1 := nv.(*Term)
		ot, ok2 := ov.(*Term)
		label := reg.name + "@" + k
		if ok1 && ok2 && nt.Sort != SArr {
			e.addObligation(st, fr, "frame", label, mkEq(st.sub(nt), ot), "cell outside `modifies` is unchanged: "+label)
		} else {
			e.addObligation(st, fr, "frame", label, tFalse, "cell outside `modifies` was written: "+label)
		}
	}
	// invariants of modified objects
	weakRoot := e.weakRoots(fn, c, args)
	for _, cr := range dedupeObjects(e, modCells) {
		if weakRoot[pathKey(cr.reg.id, cr.path)] {
			continue
		}
		for _, inv := range e.invariantsAt(st, cr.reg, cr.path, cr.typ, cr.reg.name+pathName(cr.reg.typ, cr.path)) {
			if inv.top {
				e.addObligation(st, fr, "inv", inv.label, inv.t, "type invariant restored for "+inv.label)
			}
		}
	}
}

func sameValue(a, b Value) bool {
	switch x := a.(type) {
	case *Term:
		y, ok := b.(*Term)
		return ok && (x == y || x.Key() == y.Key())
	case *PtrVal:
		y, ok := b.(*PtrVal)
		if !ok {
			return false
		}
		if x.null || y.null {
			return x.null && y.null
		}
		return x.reg == y.reg && fmt.Sprint(x.path) == fmt.Sprint(y.path)
	case *SliceVal:
		y, ok := b.(*SliceVal)
		if !ok {
			return false
		}
		if x.reg == nil || y.reg == nil {
			return x.reg == y.reg
		}
		return x.reg == y.reg && x.off.Key() == y.off.Key() && x.length.Key() == y.length.Key()
	case *IfaceVal:
		y, ok := b.(*IfaceVal)
		return ok && x == y
	case *StrVal:
		y, ok := b.(*StrVal)
		return ok && (x == y || (x.known && y.known && x.s == y.s))
	}
	return a == b
}

func collectRegions(e *Engine, st *State, v Value, out map[int]*Region) {
	switch x := v.(type) {
	case *PtrVal:
		if x.null || out[x.reg.id] != nil {
			return
		}
		reg := x.reg
		if w, ok := e.windows[reg.id]; ok {
			reg = w.parent
		}
		out[reg.id] = reg
		if reg.dyn {
			return
		}
		leafPaths(reg.typ, nil, func(p []int, lt types.Type) {
			switch underlying(lt).(type) {
			case *types.Pointer, *types.Slice:
				if cv, ok := st.mem.cells[pathKey(reg.id, p)]; ok {
					collectRegions(e, st, cv, out)
				}
			}
		})
	case *SliceVal:
		if x.reg == nil || out[x.reg.id] != nil {
			return
		}
		out[x.reg.id] = x.reg
		if !x.reg.dyn {
			leafPaths(x.reg.typ, nil, func(p []int, lt types.Type) {
				switch underlying(lt).(type) {
				case *types.Pointer, *types.Slice:
					if cv, ok := st.mem.cells[pathKey(x.reg.id, p)]; ok {
						collectRegions(e, st, cv, out)
					}
				}
			})
		}
	case *AggVal:
		for _, el := range x.elems {
			collectRegions(e, st, el, out)
		}
	}
}

// ---------------------------------------------------------------------------- lemma instantiation

// ---------------------------------------------------------------------------- package initialisers

func (e *Engine) findGlobal(pkgPath, name string) *ssa.Global {
	if p, ok := e.pkgs[pkgPath]; ok {
		if g, ok := p.Members[name].(*ssa.Global); ok {
			return g
		}
	}
	return nil
}

// initGlobals evaluates the package initialisers of the repository packages on concrete values
// (ground evaluation by the engine's own SSA interpreter; calls are inlined, contracts unused).
func (e *Engine) initGlobals(order []*ssa.Package) error {
	e.gmem = &Memory{cells: map[string]Value{}}
	st := &State{mem: e.gmem, hypKeys: map[string]bool{}, subst: map[string]*Term{}, names: map[string]Value{}, cuts: map[string]bool{}, weak: map[string]bool{}, visits: map[*ssa.BasicBlock]int{}, binds: map[string]int{}, lastBind: map[string]ssa.Value{}, inLoop: map[*ssa.BasicBlock]bool{}, ghost: map[string]Value{}}
	e.concrete = true
	defer func() { e.concrete = false }()
	for _, p := range order {
		// zero-initialise globals
		var names []string
		for n := range p.Members {
			names = append(names, n)
		}
		sort.Strings(names)
		for _, n := range names {
			g, ok := p.Members[n].(*ssa.Global)
			if !ok {
				continue
			}
			r := e.globalRegion(g)
			if data, ok := e.embed[p.Pkg.Path()+"."+n]; ok {
				_ = data
				// embedded byte slices are materialised lazily (see tables.go)
				st.mem.cells[pathKey(r.id, nil)] = &SliceVal{elem: types.Typ[types.Uint8], off: mkInt64(0), length: mkInt64(0), capacity: mkInt64(0)}
				continue
			}
			func() {
				defer func() {
					if rr := recover(); rr != nil {
						ee, ok := rr.(engineError)
						if !ok {
							panic(rr)
						}
						// a package-level variable of a kind the engine does not model (map, channel, ...):
						// every read of it is an engine error at the place of use
						e.poison(r, fmt.Sprintf("package-level variable %s.%s is not modelled (%s)", p.Pkg.Path(), n, ee.msg))
					}
				}()
				e.initRegionZero(st, r)
			}()
		}
		initFn := p.Func("init")
		if initFn == nil || initFn.Blocks == nil {
			continue
		}
		var ierr error
		func() {
			defer func() {
				if r := recover(); r != nil {
					if ee, ok := r.(engineError); ok {
						ierr = fmt.Errorf("init of %s: %s", p.Pkg.Path(), ee.msg)
						return
					}
					panic(r)
				}
			}()
			e.steps = 0
			exits := e.execFunction(st, initFn, nil, 0, &verifyCtx{})
			if len(exits) != 1 || exits[0].kind != "return" {
				e.fail("initialiser did not return normally (%d exits)", len(exits))
			}
			st = exits[0].st
		}()
		if ierr != nil {
			// the package-level state of this package is unknown from here on: reads of its variables are
			// engine errors in the functions that perform them (other packages stay analysable)
			for _, n := range names {
				if g, ok := p.Members[n].(*ssa.Global); ok {
					e.poison(e.globalRegion(g), ierr.Error())
				}
			}
			e.initErrors = append(e.initErrors, ierr.Error())
		}
	}
	e.gmem = st.mem
	return nil
}

func (e *Engine) weakRoots(fn *ssa.Function, c *Contract, args []Value) map[string]bool {
	out := map[string]bool{}
	for i, a := range args {
		if i < len(fn.Params) && c.Weak[fn.Params[i].Name()] {
			if p, ok := a.(*PtrVal); ok && !p.null && !p.reg.dyn {
				r, pp, _ := e.resolveWindow(p.reg, p.path)
				out[pathKey(r.id, pp)] = true
			}
		}
	}
	return out
}

// tryLemma instantiates a `using` clause; instances that cannot be evaluated in this state (for
// example because they mention a local that is not defined on this path) are skipped.
func (e *Engine) tryLemma(st *State, env *SpecEnv, u *Clause) {
	defer func() {
		if r := recover(); r != nil {
			if _, ok := r.(engineError); !ok {
				panic(r)
			}
		}
	}()
	for _, h := range e.instantiateLemma(env, u) {
		st.assume(h)
	}
}

// ensuresObligation: `A ==> B` whose consequent cannot be evaluated on this path (e.g. it dereferences a
// nil result) holds only if A is false here: that becomes the obligation.
func (e *Engine) ensuresObligation(st *State, fr *Frame, env *SpecEnv, en *Clause, i int) {
	if ce, ok := en.Expr.(*ast.CallExpr); ok {
		if id, ok := ce.Fun.(*ast.Ident); ok && id.Name == "implies" {
			a := st.sub(env.boolTerm(ce.Args[0]))
			if knownFalse(st, a) {
				e.addObligation(st, fr, "ensures", strconv.Itoa(i), tTrue, en.Text)
				return
			}
			st2 := st.fork()
			env2 := *env
			env2.st = st2
			st2.assume(a)
			e.consequentObligation(st2, fr, &env2, a, ce.Args[1], en, i)
			return
		}
	}
	g := env.boolTerm(en.Expr)
	e.addObligation(st, fr, "ensures", strconv.Itoa(i), g, en.Text)
}

func (e *Engine) consequentObligation(st2 *State, fr *Frame, env2 *SpecEnv, a *Term, cons ast.Expr, en *Clause, i int) {
	var g *Term
	var evalErr string
	func() {
		defer func() {
			if r := recover(); r != nil {
				ee, ok := r.(engineError)
				if !ok {
					panic(r)
				}
				evalErr = ee.msg
			}
		}()
		g = env2.boolTerm(cons)
	}()
	if evalErr != "" {
		e.addObligation(st2, fr, "ensures", strconv.Itoa(i)+":guard-false", tFalse, en.Text+"   [consequent not evaluable on this path ("+evalErr+"), so the guard must be false]")
		return
	}
	e.addObligation(st2, fr, "ensures", strconv.Itoa(i), g, en.Text)
}

// deepFresh emits the freshness obligations for the pointer / slice fields of the struct x points to.
func (e *Engine) deepFresh(st *State, fr *Frame, env *SpecEnv, x ast.Expr, t types.Type, shared map[string]bool, depth int) {
	if depth > 3 {
		return
	}
	pt, ok := underlying(t).(*types.Pointer)
	if !ok {
		return
	}
	n := namedOf(pt)
	if n == nil || n.Obj().Pkg() == nil || !strings.HasPrefix(n.Obj().Pkg().Path(), modPath) {
		return
	}
	stt, ok := underlying(pt.Elem()).(*types.Struct)
	if !ok {
		return
	}
	for i := 0; i < stt.NumFields(); i++ {
		f := stt.Field(i)
		switch underlying(f.Type()).(type) {
		case *types.Pointer, *types.Slice:
		default:
			continue
		}
		fx := &ast.SelectorExpr{X: x, Sel: ast.NewIdent(f.Name())}
		name := exprString(fx)
		if shared[name] {
			continue
		}
		ok, isNil := false, false
		var sub *PtrVal
		func() {
			defer func() {
				if r := recover(); r != nil {
					if _, isFail := r.(engineError); !isFail {
						panic(r)
					}
					if os.Getenv("VCGO_DEBUG_FRESH") != "" {
						fmt.Fprintf(os.Stderr, "deepFresh %s: %v\n", name, r)
					}
					ok = false
				}
			}()
			fv := env.eval(fx)
			if rv, isRef := fv.(*RefVal); isRef {
				fv = env.loadRef(rv)
			}
			switch p := fv.(type) {
			case *PtrVal:
				isNil = p.null
				ok = p.null || (p.reg != nil && p.reg.fresh && env.freshSince(p.reg))
				sub = p
			case *SliceVal:
				isNil = p.reg == nil
				ok = p.reg == nil || (p.reg.fresh && env.freshSince(p.reg))
			default:
				if os.Getenv("VCGO_DEBUG_FRESH") != "" {
					fmt.Fprintf(os.Stderr, "deepFresh %s: value %T\n", name, p)
				}
			}
		}()
		e.addObligation(st, fr, "fresh", name, mkBool(ok), "fresh "+name+": the internals of a fresh "+n.Obj().Name()+" are allocated by this call (or nil), so no caller-held buffer or object is shared with it")
		if ok && !isNil && sub != nil {
			e.deepFresh(st, fr, env, fx, f.Type(), shared, depth+1)
		}
	}
}
