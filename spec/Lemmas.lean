import Mathlib

/-!
Bridge lemmas between the integer-level postconditions of the fiat-crypto Montgomery routines and statements in
Z/m (m = P or N), for a Montgomery radix R that is a unit modulo m.  `fm x = x * R⁻¹` in `ZMod m`.
These are the `proof lean:<name>` lemmas of /verif/spec/lemmas.spec; they are stated for an arbitrary modulus
`m` and an arbitrary unit `r` of `ZMod m` standing for the class of R, which covers both instances.
-/

namespace Verif

variable {m : ℕ}

/-- fm x = x * r⁻¹ where r is the class of the Montgomery radix. -/
def fm (r : (ZMod m)ˣ) (x : ℤ) : ZMod m := (x : ZMod m) * ((r⁻¹ : (ZMod m)ˣ) : ZMod m)

theorem fm_add (r : (ZMod m)ˣ) (o a b : ℤ) (h : o = a + b ∨ o = a + b - m) :
    fm r o = fm r a + fm r b := by
  unfold fm
  rcases h with h | h <;> subst h <;> push_cast <;> simp [add_mul]

theorem fm_sub (r : (ZMod m)ˣ) (o a b : ℤ) (h : o = a - b ∨ o = a - b + m) :
    fm r o = fm r a - fm r b := by
  unfold fm
  rcases h with h | h <;> subst h <;> push_cast <;> simp [sub_mul]

/-- o*R = a*b + q*m  implies  fm o = fm a * fm b. -/
theorem fm_mul (r : (ZMod m)ˣ) (R o a b q : ℤ) (hR : (R : ZMod m) = r) (h : o * R = a * b + q * m) :
    fm r o = fm r a * fm r b := by
  unfold fm
  have h' : (o : ZMod m) * (r : ZMod m) = (a : ZMod m) * (b : ZMod m) := by
    have := congrArg (fun z : ℤ => (z : ZMod m)) h
    simp only [Int.cast_mul, Int.cast_add, Int.cast_natCast, ZMod.natCast_self, mul_zero, add_zero] at this
    rw [hR] at this
    exact this
  have hr : (r : ZMod m) * ((r⁻¹ : (ZMod m)ˣ) : ZMod m) = 1 := by
    rw [← Units.val_mul, mul_inv_cancel, Units.val_one]
  calc (o : ZMod m) * ((r⁻¹ : (ZMod m)ˣ) : ZMod m)
      = ((o : ZMod m) * (r : ZMod m)) * (((r⁻¹ : (ZMod m)ˣ) : ZMod m) * ((r⁻¹ : (ZMod m)ˣ) : ZMod m)) := by
        rw [mul_assoc, ← mul_assoc (r : ZMod m), hr, one_mul]
    _ = (a : ZMod m) * ((r⁻¹ : (ZMod m)ˣ) : ZMod m) * ((b : ZMod m) * ((r⁻¹ : (ZMod m)ˣ) : ZMod m)) := by
        rw [h']; ring

/-- o*R = a + q*m  implies  (o : ZMod m) = fm a  (FromMontgomery). -/
theorem fm_from (r : (ZMod m)ˣ) (R o a q : ℤ) (hR : (R : ZMod m) = r) (h : o * R = a + q * m) :
    (o : ZMod m) = fm r a := by
  unfold fm
  have h' : (o : ZMod m) * (r : ZMod m) = (a : ZMod m) := by
    have := congrArg (fun z : ℤ => (z : ZMod m)) h
    simp only [Int.cast_mul, Int.cast_add, Int.cast_natCast, ZMod.natCast_self, mul_zero, add_zero] at this
    rw [hR] at this
    exact this
  have hr : (r : ZMod m) * ((r⁻¹ : (ZMod m)ˣ) : ZMod m) = 1 := by
    rw [← Units.val_mul, mul_inv_cancel, Units.val_one]
  rw [← h', mul_assoc, hr, mul_one]

/-- o*R = a*R2 + q*m with R2 = R*R  implies  fm o = a  (ToMontgomery). -/
theorem fm_to (r : (ZMod m)ˣ) (R R2 o a q : ℤ) (hR : (R : ZMod m) = r) (hR2 : (R2 : ZMod m) = (r : ZMod m) * r)
    (h : o * R = a * R2 + q * m) : fm r o = (a : ZMod m) := by
  unfold fm
  have h' : (o : ZMod m) * (r : ZMod m) = (a : ZMod m) * ((r : ZMod m) * r) := by
    have := congrArg (fun z : ℤ => (z : ZMod m)) h
    simp only [Int.cast_mul, Int.cast_add, Int.cast_natCast, ZMod.natCast_self, mul_zero, add_zero] at this
    rw [hR, hR2] at this
    exact this
  have hr : (r : ZMod m) * ((r⁻¹ : (ZMod m)ˣ) : ZMod m) = 1 := by
    rw [← Units.val_mul, mul_inv_cancel, Units.val_one]
  have e : (o : ZMod m) = (a : ZMod m) * r := by
    calc (o : ZMod m) = (o : ZMod m) * r * ((r⁻¹ : (ZMod m)ˣ) : ZMod m) := by rw [mul_assoc, hr, mul_one]
      _ = (a : ZMod m) * ((r : ZMod m) * r) * ((r⁻¹ : (ZMod m)ˣ) : ZMod m) := by rw [h']
      _ = (a : ZMod m) * r := by rw [mul_assoc, mul_assoc, hr, mul_one]
  rw [e, mul_assoc, hr, mul_one]

/-- fm is injective on integers reduced modulo m: fm a = fm b ↔ a ≡ b. -/
theorem fm_inj (r : (ZMod m)ˣ) (a b : ℤ) : fm r a = fm r b ↔ (a : ZMod m) = (b : ZMod m) := by
  unfold fm
  constructor
  · intro h
    exact (Units.mul_left_inj (r⁻¹)).mp h
  · intro h; rw [h]

theorem fm_zero (r : (ZMod m)ˣ) (a : ℤ) : fm r a = 0 ↔ (a : ZMod m) = 0 := by
  unfold fm
  exact Units.mul_left_eq_zero (r⁻¹)


section Field


/-! Field facts used by the point-decoding, signing and hash-to-curve proofs, for an arbitrary prime p
(instances: p = P).  Primality of the literal P is not re-proved; it is the remaining assumption. -/

variable {p : ℕ} [Fact p.Prime]

theorem mul_nonzero (a b : ZMod p) (ha : a ≠ 0) (hb : b ≠ 0) : a * b ≠ 0 := mul_ne_zero ha hb

theorem sqrt_unique (a y z : ZMod p) (hy : y * y = a) (hz : z * z = a) : z = y ∨ z = -y := by
  have h : z * z = y * y := by rw [hy, hz]
  exact mul_self_eq_mul_self_iff.mp h

/-- For odd p and y ≠ 0 the canonical representatives of y and -y have different parity. -/
theorem neg_parity (hp : p % 2 = 1) (y : ZMod p) (hy : y ≠ 0) : (-y).val % 2 = 1 - y.val % 2 := by
  have hlt : y.val < p := ZMod.val_lt y
  have hpos : 0 < y.val := by
    rcases Nat.eq_zero_or_pos y.val with h | h
    · exact absurd ((ZMod.val_eq_zero y).mp h) hy
    · exact h
  have hneg : (-y).val = p - y.val := by
    rw [ZMod.neg_val]; simp [hy]
  rw [hneg]; omega

theorem sqrt_sign_unique (hp : p % 2 = 1) (a y z : ZMod p) (b : ℕ) (hy : y * y = a) (hz : z * z = a) (ha : a ≠ 0)
    (hyb : y.val % 2 = b) (hzb : z.val % 2 = b ∨ z = 0) : z = y := by
  have hy0 : y ≠ 0 := by
    intro h; apply ha; rw [← hy, h, mul_zero]
  have hz0 : z ≠ 0 := by
    intro h; apply ha; rw [← hz, h, mul_zero]
  have hzb' : z.val % 2 = b := by
    rcases hzb with h | h
    · exact h
    · exact absurd h hz0
  rcases sqrt_unique a y z hy hz with h | h
  · exact h
  · exfalso
    have := neg_parity hp y hy0
    rw [← h] at this
    omega

/-- Euler's criterion in the form used by the decoder, for p = 3 (mod 4). -/
theorem euler_sqrt (hp : p % 4 = 3) (a : ZMod p) : IsSquare a ↔ a ^ ((p + 1) / 2) = a := by
  have hodd : p % 2 = 1 := by omega
  have hk : (p + 1) / 2 = p / 2 + 1 := by omega
  by_cases ha : a = 0
  · subst ha
    constructor
    · intro _; rw [zero_pow]; omega
    · intro _; exact ⟨0, by simp⟩
  · rw [hk, pow_succ, ZMod.euler_criterion (p := p) ha]
    constructor
    · intro h; rw [h, one_mul]
    · intro h
      have : a ^ (p / 2) * a = 1 * a := by rw [h, one_mul]
      exact mul_right_cancel₀ ha this

theorem powsq {R : Type*} [Monoid R] (x : R) (i : ℕ) : x ^ (2 ^ i) * x ^ (2 ^ i) = x ^ (2 ^ (i + 1)) := by
  rw [← pow_add, pow_succ, mul_two]


end Field

end Verif
