import Mathlib

/-!
Bridge lemmas between the integer-level postconditions of the fiat-crypto Montgomery routines and statements in
Z/m (m = P or N), for a Montgomery radix R that is a unit modulo m.  `fm x = x * R⁻¹` in `ZMod m`.
These are the `proof lean:<name>` lemmas of /verif/spec/lemmas.spec; they are stated for an arbitrary modulus
`m` and an arbitrary unit `r` of `ZMod m` standing for the class of R, which covers both instances.
-/

namespace Verif

variable {m : ℕ}

/-- fm x = x * r⁻¹ where r is the class of the Montgomery radix. -/
def fm (r : (ZMod m)ˣ) (x : ℤ) : ZMod m := (x : ZMod m) * ((r⁻¹ : (ZMod m)ˣ) : ZMod m)

theorem fm_add (r : (ZMod m)ˣ) (o a b : ℤ) (h : o = a + b ∨ o = a + b - m) :
    fm r o = fm r a + fm r b := by
  unfold fm
  rcases h with h | h <;> subst h <;> push_cast <;> simp [add_mul]

theorem fm_sub (r : (ZMod m)ˣ) (o a b : ℤ) (h : o = a - b ∨ o = a - b + m) :
    fm r o = fm r a - fm r b := by
  unfold fm
  rcases h with h | h <;> subst h <;> push_cast <;> simp [sub_mul]

/-- o*R = a*b + q*m  implies  fm o = fm a * fm b. -/
theorem fm_mul (r : (ZMod m)ˣ) (R o a b q : ℤ) (hR : (R : ZMod m) = r) (h : o * R = a * b + q * m) :
    fm r o = fm r a * fm r b := by
  unfold fm
  have h' : (o : ZMod m) * (r : ZMod m) = (a : ZMod m) * (b : ZMod m) := by
    have := congrArg (fun z : ℤ => (z : ZMod m)) h
    simp only [Int.cast_mul, Int.cast_add, Int.cast_natCast, ZMod.natCast_self, mul_zero, add_zero] at this
    rw [hR] at this
    exact this
  have hr : (r : ZMod m) * ((r⁻¹ : (ZMod m)ˣ) : ZMod m) = 1 := by
    rw [← Units.val_mul, mul_inv_cancel, Units.val_one]
  calc (o : ZMod m) * ((r⁻¹ : (ZMod m)ˣ) : ZMod m)
      = ((o : ZMod m) * (r : ZMod m)) * (((r⁻¹ : (ZMod m)ˣ) : ZMod m) * ((r⁻¹ : (ZMod m)ˣ) : ZMod m)) := by
        rw [mul_assoc, ← mul_assoc (r : ZMod m), hr, one_mul]
    _ = (a : ZMod m) * ((r⁻¹ : (ZMod m)ˣ) : ZMod m) * ((b : ZMod m) * ((r⁻¹ : (ZMod m)ˣ) : ZMod m)) := by
        rw [h']; ring

/-- o*R = a + q*m  implies  (o : ZMod m) = fm a  (FromMontgomery). -/
theorem fm_from (r : (ZMod m)ˣ) (R o a q : ℤ) (hR : (R : ZMod m) = r) (h : o * R = a + q * m) :
    (o : ZMod m) = fm r a := by
  unfold fm
  have h' : (o : ZMod m) * (r : ZMod m) = (a : ZMod m) := by
    have := congrArg (fun z : ℤ => (z : ZMod m)) h
    simp only [Int.cast_mul, Int.cast_add, Int.cast_natCast, ZMod.natCast_self, mul_zero, add_zero] at this
    rw [hR] at this
    exact this
  have hr : (r : ZMod m) * ((r⁻¹ : (ZMod m)ˣ) : ZMod m) = 1 := by
    rw [← Units.val_mul, mul_inv_cancel, Units.val_one]
  rw [← h', mul_assoc, hr, mul_one]

/-- o*R = a*R2 + q*m with R2 = R*R  implies  fm o = a  (ToMontgomery). -/
theorem fm_to (r : (ZMod m)ˣ) (R R2 o a q : ℤ) (hR : (R : ZMod m) = r) (hR2 : (R2 : ZMod m) = (r : ZMod m) * r)
    (h : o * R = a * R2 + q * m) : fm r o = (a : ZMod m) := by
  unfold fm
  have h' : (o : ZMod m) * (r : ZMod m) = (a : ZMod m) * ((r : ZMod m) * r) := by
    have := congrArg (fun z : ℤ => (z : ZMod m)) h
    simp only [Int.cast_mul, Int.cast_add, Int.cast_natCast, ZMod.natCast_self, mul_zero, add_zero] at this
    rw [hR, hR2] at this
    exact this
  have hr : (r : ZMod m) * ((r⁻¹ : (ZMod m)ˣ) : ZMod m) = 1 := by
    rw [← Units.val_mul, mul_inv_cancel, Units.val_one]
  have e : (o : ZMod m) = (a : ZMod m) * r := by
    calc (o : ZMod m) = (o : ZMod m) * r * ((r⁻¹ : (ZMod m)ˣ) : ZMod m) := by rw [mul_assoc, hr, mul_one]
      _ = (a : ZMod m) * ((r : ZMod m) * r) * ((r⁻¹ : (ZMod m)ˣ) : ZMod m) := by rw [h']
      _ = (a : ZMod m) * r := by rw [mul_assoc, mul_assoc, hr, mul_one]
  rw [e, mul_assoc, hr, mul_one]

/-- fm is injective on integers reduced modulo m: fm a = fm b ↔ a ≡ b. -/
theorem fm_inj (r : (ZMod m)ˣ) (a b : ℤ) : fm r a = fm r b ↔ (a : ZMod m) = (b : ZMod m) := by
  unfold fm
  constructor
  · intro h
    exact (Units.mul_left_inj (r⁻¹)).mp h
  · intro h; rw [h]

theorem fm_zero (r : (ZMod m)ˣ) (a : ℤ) : fm r a = 0 ↔ (a : ZMod m) = 0 := by
  unfold fm
  exact Units.mul_left_eq_zero (r⁻¹)

end Verif
